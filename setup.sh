#!/bin/sh
# Build the overlay venv offline (python 3.12 + z3/cvc5/crosshair/deal wheels + the repo's own deps via .pth).
# Idempotent; ./check calls it when .venv is missing.
set -e
HERE="$(cd "$(dirname "$0")" && pwd)"
V="$HERE/.venv"
if [ -x "$V/bin/python" ] && "$V/bin/python" -c "import z3, cvc5" >/dev/null 2>&1; then
  exit 0
fi
rm -rf "$V"
PY=/root/.pyenv/versions/3.12.1/bin/python3.12
[ -x "$PY" ] || PY="$(readlink -f /venv/bin/python)"
"$PY" -m venv "$V"
PIP_NO_INDEX=1 "$V/bin/pip" install -q --no-index --find-links /opt/veriftools/wheels z3-solver cvc5 crosshair-tool deal icontract hypothesis jsonschema >/dev/null
SP="$("$V/bin/python" -c 'import site; print(site.getsitepackages()[0])')"
echo "import site; site.addsitedir('/venv/lib/python3.12/site-packages')" > "$SP/zz_repo.pth"
"$V/bin/python" -c "import z3, cvc5; print('venv ok', z3.get_version_string())"
