#!/usr/bin/env python3
"""Apply each seeded change to /repo in turn, run the check of the property it targets (or all with --all), undo it.
usage: seedrun.py [--all] [name-substring ...]"""
import json, os, subprocess, sys
HERE = os.path.dirname(os.path.abspath(__file__))
args = [a for a in sys.argv[1:] if not a.startswith("--")]
run_all = "--all" in sys.argv
props = [f"C{i:02d}" for i in range(1, 20)]
out = {}
for d in sorted(os.listdir(os.path.join(HERE, "seeded"))):
    if args and not any(a in d for a in args):
        continue
    patch = os.path.join(HERE, "seeded", d, "patch.diff")
    if not os.path.exists(patch):
        continue
    st = subprocess.run(["git", "-C", "/repo", "status", "--porcelain", "--untracked-files=no"], capture_output=True, text=True).stdout.strip()
    assert not st, "repo not clean: " + st
    r = subprocess.run(["git", "-C", "/repo", "apply", patch], capture_output=True, text=True)
    if r.returncode != 0:
        print(d, "PATCH DOES NOT APPLY", r.stderr[:200]); continue
    try:
        targets = props if run_all else [d[:3]]
        res = {}
        for p in targets:
            c = subprocess.run([os.path.join(HERE, "check"), p], capture_output=True, text=True, cwd=HERE)
            viol = [l for l in c.stdout.splitlines() if l.startswith("VIOLATION")]
            res[p] = (c.returncode, viol)
        out[d] = res
        for p, (rc, viol) in res.items():
            if rc != 0 or run_all is False:
                what = []
                for v in viol[:4]:
                    path = v.split("replay=")[1].split()[0]
                    try:
                        j = json.load(open(path))
                        what.append((j.get("obligation") or j.get("bounded") or j.get("function") or "?") + (" [no-input]" if v.endswith("no-failing-input-found") else ""))
                    except Exception:
                        what.append("?")
                print(f"{d:10s} {p} exit={rc} violations={len(viol)} {what}")
    finally:
        subprocess.run(["git", "-C", "/repo", "checkout", "--", "."], check=True)
json.dump({d: {p: [rc, v] for p, (rc, v) in r.items()} for d, r in out.items()}, open("/tmp/seedrun.json", "w"), indent=1)
