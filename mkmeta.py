#!/usr/bin/env python3
"""dev helper: (re)write seeded/<id>/meta.json from the sub-agent's notes.md, the patch and the last seedrun result (/tmp/seedrun.json)."""
import json, os, re, sys
HERE = os.path.dirname(os.path.abspath(__file__))
res = json.load(open(sys.argv[1] if len(sys.argv) > 1 else "/tmp/seedrun.json"))
for d in sorted(os.listdir(os.path.join(HERE, "seeded"))):
    base = os.path.join(HERE, "seeded", d)
    if not os.path.exists(os.path.join(base, "patch.diff")):
        continue
    notes = open(os.path.join(base, "notes.md")).read() if os.path.exists(os.path.join(base, "notes.md")) else ""
    title = notes.splitlines()[0].lstrip("# ").strip() if notes else d
    needs = ""
    for line in notes.splitlines():
        if re.match(r"\s*-\s*(What is needed|Needed to manifest|What it needs|Manifest)", line, re.I):
            needs = line.lstrip("- ").strip()
    files = sorted(set(re.findall(r"^\+\+\+ b/(\S+)", open(os.path.join(base, "patch.diff")).read(), re.M)))
    prop = d[:3]
    meta_path = os.path.join(base, "meta.json")
    old = json.load(open(meta_path)) if os.path.exists(meta_path) else {}
    r = res.get(d, {}).get(prop)
    detected_by = old.get("detected_by", [])
    exit_code = old.get("check_exit")
    if r is not None:
        exit_code, viol = r
        detected_by = []
        for v in viol:
            path = v.split("replay=")[1].split()[0]
            name = os.path.basename(path)[len(prop) + 1:-5]
            detected_by.append({"obligation_or_stand_in": name, "with_input": not v.rstrip().endswith("no-failing-input-found")})
    meta = {
        "id": d, "property": prop, "title": title, "files_changed": files,
        "needs_to_manifest": needs or "see notes.md",
        "origin": "written by a fresh sub-agent that was given only the property text and a scratch worktree of /repo; confirmed by hand: "
                  "patch applies to /repo HEAD, the 428-test suite still passes with it, demo.py fails with it and passes without it",
        "ran": [f"git -C /repo apply /verif/seeded/{d}/patch.diff", f"/verif/check {prop}", "git -C /repo checkout -- ."],
        "check_exit": exit_code,
        "detected": bool(exit_code == 1),
        "detected_by": detected_by,
    }
    json.dump(meta, open(meta_path, "w"), indent=1)
    print(d, exit_code, len(detected_by))
