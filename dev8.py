"""dev: try to prove spec expressions in the exit state of a failing post obligation.
usage: dev8.py <func-substr> <obligation-substr> <index> "<expr>" ["<expr>" ...]   (expressions may use local("x"))"""
import ast, sys
sys.path.insert(0, '/verif')
from pyvc.verify import Engine
from pyvc.smt import to_smt2, solve_smt2
from pyvc.sym import St
import z3
e = Engine()
key=[k for k in e.side.contracts if sys.argv[1] in k][0]
e.verify_function(key)
obs=[ob for ob in e.obligations if sys.argv[2] in ob.name]
ob=obs[int(sys.argv[3])]
post_st, spec_fr = ob.debug
print(ob.name, 'exit', sys.argv[3], 'of', len(obs))
import re
for g_ in post_st.guards: print('  GUARD', re.sub(r'\s+',' ',str(g_))[:400])
for src in [a for a in sys.argv[4:] if not a.startswith("--")]:
    st = St(post_st.guards, post_st.facts, dict(post_st.env), post_st.heap, post_st.eff, post_st.epoch)
    g = e.truth(e.ev(ast.parse(src, mode='eval').body, st, spec_fr))
    r = solve_smt2(to_smt2(e.voc, list(e.global_facts)+list(st.guards)+list(st.facts), g), 5000, 0, 'ematching')[0]
    if r != 'unsat':
        r += '/' + solve_smt2(to_smt2(e.voc, list(e.global_facts)+list(st.guards)+list(st.facts), g), 5000, 0, 'default')[0]
    print(f"  {r:16s} {src}")
if '--env' in sys.argv or True:
    for n in ('other_types','str_types'):
        if n in post_st.env:
            print(n, '=', re.sub(r'\s+',' ',str(post_st.env[n].t))[:1500])
pat = [a for a in sys.argv if a.startswith('--grep=')]
if pat:
    pat = pat[0][7:]
    for f_ in list(post_st.facts):
        s_ = re.sub(r'\s+',' ',str(f_))
        if pat in s_: print('  FACT', s_[:900])
