#!/usr/bin/env python3
"""dev helper: copy finished round-2 seeds from /tmp/wt2/Cxx/_seed/m<k> to /verif/seeded/Cxx-r2m<k> (patch must apply to /repo HEAD)"""
import os, shutil, subprocess, sys
for i in range(1, 20):
    p = f"C{i:02d}"
    for k in (1, 2):
        src = f"/tmp/wt6/{p}/_seed/m{k}"
        dst = f"/verif/seeded/{p}-r6m{k}"
        if os.path.exists(dst) or not all(os.path.exists(os.path.join(src, f)) for f in ("patch.diff", "demo.py", "notes.md")):
            continue
        r = subprocess.run(["git", "-C", "/repo", "apply", "--check", os.path.join(src, "patch.diff")], capture_output=True, text=True)
        if r.returncode != 0:
            print(p, k, "patch does not apply to /repo HEAD:", r.stderr[:200]); continue
        shutil.copytree(src, dst)
        print("collected", dst)
