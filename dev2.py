import sys, time
sys.path.insert(0, '/verif')
from pyvc.verify import Engine
from pyvc.smt import to_smt2
e = Engine()
key=[k for k in e.side.contracts if sys.argv[1] in k][0]
e.verify_function(key)
for ob in e.obligations:
    if sys.argv[2] in ob.name:
        open('/tmp/ob.smt2','w').write(to_smt2(e.voc, ob.assumptions, ob.goal))
        print(ob.name, len(ob.assumptions)); 
        for a in ob.assumptions[-14:]: print('  ', str(a)[:300].replace('\n',' '))
        print('GOAL', ob.goal)
        break
