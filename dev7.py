import sys
sys.path.insert(0, '/verif')
from pyvc.verify import Engine
from pyvc.smt import to_smt2, solve_smt2, solve_cli
e = Engine()
key=[k for k in e.side.contracts if sys.argv[1] in k][0]
e.verify_function(key)
T=int(sys.argv[3]) if len(sys.argv)>3 else 60
for ob in [ob for ob in e.obligations if sys.argv[2] in ob.name]:
    text=to_smt2(e.voc, ob.assumptions, ob.goal)
    print(ob.name, len(ob.assumptions), [ (m, solve_smt2(text, T*1000, 0, m)[:2]) for m in ('ematching','default')], solve_cli(text,'cvc5',T)[:2])
