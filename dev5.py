import sys
sys.path.insert(0, '/verif')
from pyvc.verify import Engine
from pyvc.smt import to_smt2, solve_smt2
import z3
e = Engine()
key=[k for k in e.side.contracts if sys.argv[1] in k][0]
e.verify_function(key)
ob=[ob for ob in e.obligations if sys.argv[2] in ob.name][int(sys.argv[3]) if len(sys.argv)>3 else 0]
AX=list(e.voc.axioms)
def chk(assm, ax=None):
    s=z3.Solver()
    for a in (AX if ax is None else ax): s.add(a)
    for a in assm: s.add(a)
    return solve_smt2(s.to_smt2(), 3000)[0]
A=list(ob.assumptions)+[z3.Not(ob.goal)]
print(chk(A))
i=0
while i < len(A):
    B=A[:i]+A[i+1:]
    if chk(B)=='unsat': A=B
    else: i+=1
X=list(AX); i=0
while i < len(X):
    B=X[:i]+X[i+1:]
    if chk(A,B)=='unsat': X=B
    else: i+=1
print('--- assumptions'); 
for a in A: print(str(a).replace('\n',' ')[:900]); print()
print('--- axioms')
for a in X: print(str(a).replace('\n',' ')[:600]); print()
