"""Bounded stand-ins for the IR-level properties C01, C02, C07, C08, C13 (oracles written from the property statements)."""
import hashlib
import itertools
import random
import re

from . import bounded
from .common import (VALUES, DDict, DList, DOptional, DUnion, ModelMeta, ModelPtr, Null, StringLiteral, Unknown, infer, jdump,
                     objects, sample_lists, type_repr, fresh_registry, MetadataGenerator, ModelFieldsEquals,
                     BooleanString, FloatString, IntString)
from specs.ir import inh, is_pseudo, members, nf_violations, strip_opt, unwrap_model


def vid(*parts):
    return hashlib.sha256(jdump(parts).encode()).hexdigest()[:12]


_PAR = {"oracle": None}


def _par_eval(case):
    try:
        return _PAR["oracle"](case)
    except Exception as e:  # the pipeline itself failing on a valid input is a violation of "never fails"
        return f"raised {type(e).__name__}: {e}"


def run_cases(cases, oracle, name, limit=None, module=None):
    import os
    ev = 0
    seen = set()
    viol = []
    workers = int(os.environ.get("VERIF_PAR", "0") or 0)
    if workers > 1:
        # thorough tier: the same cases, evaluated by a pool of forked workers (the oracle is inherited, not pickled)
        import multiprocessing as mp
        cases = list(cases)
        if len(cases) >= 400:
            _PAR["oracle"] = oracle
            with mp.get_context("fork").Pool(workers) as pool:
                for case, msg in zip(cases, pool.imap(_par_eval, cases, chunksize=16)):
                    ev += 1
                    seen.add(jdump(case))
                    if msg:
                        viol.append({"id": vid(name, case), "input": case, "what": msg,
                                     "replay": {"module": module or oracle.__module__, "fn": "replay", "oracle": name}})
                        if len(viol) >= 3:
                            pool.terminate()
                            break
            return {"evaluations": ev, "distinct": len(seen), "violations": viol}
    for case in cases:
        ev += 1
        key = jdump(case)
        seen.add(key)
        try:
            msg = oracle(case)
        except Exception as e:  # the pipeline itself failing on a valid input is a violation of "never fails"
            msg = f"raised {type(e).__name__}: {e}"
        if msg:
            viol.append({"id": vid(name, case), "input": case, "what": msg,
                         "replay": {"module": module or oracle.__module__, "fn": "replay", "oracle": name}})
            if len(viol) >= 3:
                break
    return {"evaluations": ev, "distinct": len(seen), "violations": viol}


# ------------------------------------------------------------------------------------------------ C01
def oracle_c01(samples):
    reg, gen, roots = infer({"Root": samples})
    root = roots["Root"]
    for s in samples:
        if not inh(s, root):
            return f"sample {jdump(s)} is not an inhabitant of the inferred root model {type_repr(root)}"
    return None


@bounded("C01", "ir_cover_enumerated_samples")
def c01(tier, seed):
    r = run_cases(sample_lists(tier, seed), oracle_c01, "c01")
    r["bound"] = "all single objects over keys {a,b} x 21 value shapes, 22x22 core pairs, seeded pairs/triples (300 quick) / pairs to quadruples (60000 thorough) + 40000 random nested sample lists over keys {a,b,c} (thorough)"
    r["function"] = "MetadataGenerator.generate + ModelRegistry.process_meta_data/merge_models (graph-level inh oracle)"
    return r


# ------------------------------------------------------------------------------------------------ C02
def route(value, t, acc):
    """collect, per model, the objects routed to it; per container position the element values"""
    if isinstance(t, DOptional):
        if value is not None:
            route(value, t.type, acc)
        return
    if isinstance(t, DUnion):
        # which member "was chosen" for a value is not recorded in the final graph: when several members admit it (two models in one
        # union), it is routed to each of them - every model then sees a superset of its objects, which can only justify more
        for m in t.types:
            if inh(value, m):
                route(value, m, acc)
        return
    if isinstance(t, (ModelPtr, ModelMeta)):
        m = t.type if isinstance(t, ModelPtr) else t
        if isinstance(value, dict):
            acc.setdefault(id(m), (m, []))[1].append(value)
            for k, x in value.items():
                if k in m.type:
                    route(x, m.type[k], acc)
        return
    if isinstance(t, DList) and isinstance(value, list):
        for x in value:
            route(x, t.type, acc)
    elif isinstance(t, DDict) and isinstance(value, dict):
        for x in value.values():
            route(x, t.type, acc)


def tight(values, t, where):
    """values: the JSON values observed at a position typed t -> message or None"""
    core = strip_opt(t)
    if isinstance(t, DOptional) and not any(v is None for v in values) and where.get("missing") is False:
        return f"{where['path']}: Optional although no object lacked the key or held null"
    non_null = [v for v in values if v is not None]
    if core is Unknown:
        if non_null and where.get("top", True):
            return f"{where['path']}: Any although concrete values were observed: {jdump(non_null)[:80]}"
        return None
    for m in members(core):
        if m is Null or m is Unknown:
            continue
        if not any(inh(v, m) for v in non_null):
            return f"{where['path']}: member {type_repr(m, False)} admitted but no observed value inhabits it (values {jdump(values)[:80]})"
        if isinstance(m, StringLiteral):
            extra = set(m.literals) - {v for v in non_null if isinstance(v, str)}
            if extra:
                return f"{where['path']}: Literal lists strings never observed: {sorted(extra)}"
        if isinstance(m, (DList, DDict)):
            et = m.type
            if strip_opt(et) is Unknown or et is Unknown:
                # Any as element type is justified by a container of this kind that was observed empty / holding only nulls
                kind = list if isinstance(m, DList) else dict
                conts = [v for v in non_null if isinstance(v, kind)]
                if not any(all(x is None for x in (c if kind is list else c.values())) for c in conts):
                    return f"{where['path']}[]: element type Any although no empty / null-only container was observed"
            else:
                mine = [v for v in non_null if inh(v, m)]
                inner = []
                for v in mine:
                    inner += v if isinstance(m, DList) else list(v.values())
                msg = tight(inner, et, {"path": where["path"] + "[]", "missing": False if not isinstance(et, DOptional) else None, "top": False})
                if msg:
                    return msg
    return None


def oracle_c02(samples):
    reg, gen, roots = infer({"Root": samples})
    acc = {}
    for s in samples:
        route(s, roots["Root"], acc)
    for m, objs in acc.values():
        for k, ft in m.type.items():
            vals = [o[k] for o in objs if k in o]
            missing = any(k not in o for o in objs)
            if isinstance(ft, DOptional) and not missing and not any(v is None for v in vals):
                return f"model {m.index}.{k}: Optional although every routed object has the key with a non-null value"
            msg = tight(vals, ft, {"path": f"{m.index}.{k}", "missing": None})
            if msg:
                return msg
    return None


@bounded("C02", "ir_tightness_enumerated_samples")
def c02(tier, seed):
    r = run_cases(sample_lists(tier, seed), oracle_c02, "c02")
    r["bound"] = "same sample domain as C01; per model field: Optional only if missing/null, every member inhabited, literals observed, Any only for empty/null-only containers"
    r["function"] = "generate + merge_models (graph-level tightness oracle)"
    return r


# ------------------------------------------------------------------------------------------------ C07
def graph_repr(reg, roots):
    return type_repr(roots["Root"]), sorted(type_repr(m) for m in reg.models)


_COMMON10 = {f"k{i}": i for i in range(10)}
C07_POLICY_CASES = [
    # (samples, option set): merge policies other than the default and the dict-key options, where order sensitivity can hide
    ([{"p": {**_COMMON10, "f": {"a": 1}}}, {"q": {**_COMMON10, "f": {"a": "s"}}}], "number10"),
    ([{"p": {**_COMMON10, "f": {"a": 1}}}, {"q": {**_COMMON10, "f": {"a": "s"}}}], "number10_exact"),
    ([{"p": {"a": 1, "b": 2}, "q": {"a": "s", "b": 2}}, {"p": {"a": 1.5, "b": None}}], "exact"),
    ([{"scores": {"1": 1, "2": 2}}, {"scores": {"1": 1, "x": 2}}], "dkr_digits"),
    ([{"scores": {"1": 1, "x": 2}}, {"scores": {"1": 1, "2": 2}}, {"scores": {"7": "s"}}], "dkr_digits"),
    ([{"m": {"k": {"1": 1}}, "n": {"k": {"y": 1}}}, {"m": {"k": {"z": 2}}}], "dkr_digits"),
    ([{"f": {"a": 1}, "g": {"a": 1}}, {"f": {"b": 2}}], "dkf_f"),
    ([{"owner": {"id": 1, "name": "n", "rank": 5}}, {"editors": [{"id": 2, "name": "m", "rank": "high"}, {"id": 3, "name": "k"}]}], "number2"),
]


def _c07_options(name):
    from json_to_models.registry import ModelFieldsNumberMatch
    return {
        "default": {},
        "number10": {"merge": [ModelFieldsNumberMatch(10)]},
        "number2": {"merge": [ModelFieldsNumberMatch(2)]},
        "number10_exact": {"merge": [ModelFieldsNumberMatch(10), ModelFieldsEquals()]},
        "exact": {"merge": [ModelFieldsEquals()]},
        "dkr_digits": {"dict_keys_regex": [r"^\d+$"]},
        "dkf_f": {"dict_keys_fields": ["f"]},
    }[name]


def oracle_c07(samples, optname="default"):
    import copy
    kw = lambda: copy.deepcopy(_c07_options(optname)) if optname != "default" else {}
    base = graph_repr(*(lambda r: (r[0], r[2]))(infer({"Root": copy.deepcopy(samples)}, **kw())))
    variants = []
    if len(samples) > 1:
        variants.append(list(reversed(samples)))
        variants.append(samples[1:] + samples[:1])
        variants.append([dict(reversed(list(x.items()))) for x in samples])      # same objects, keys in reverse order
    variants.append(samples + [samples[0]])
    variants.append([samples[-1]] + samples)
    for v in variants:
        reg, gen, roots = infer({"Root": copy.deepcopy(v)}, **kw())
        if graph_repr(reg, roots) != base:
            return f"[{optname}] reordered/duplicated samples {jdump(v)[:120]} infer {graph_repr(reg, roots)[0]} instead of {base[0]}"
    return None


def oracle_c07_policy(i):
    samples, optname = C07_POLICY_CASES[i]
    return oracle_c07(samples, optname)


@bounded("C07", "permutation_duplication_invariance")
def c07(tier, seed):
    cases = (s for s in sample_lists(tier, seed) if len(s) >= 1)
    r = run_cases(cases, oracle_c07, "c07")
    r2 = run_cases(list(range(len(C07_POLICY_CASES))), oracle_c07_policy, "c07_policy")
    for k in ("evaluations", "distinct"):
        r[k] += r2[k]
    r["violations"] += r2["violations"]
    r["bound"] = f"sample domain of C01 (default options) + {len(C07_POLICY_CASES)} inputs under number-only / exact / number+exact merge policies and dict-key regex / field options; variants: reversal, rotation, reversed key order, repeating the first / last sample; types compared as sets"
    r["function"] = "generate + merge_models"
    return r


# ------------------------------------------------------------------------------------------------ C08
def universe():
    atoms = [int, float, bool, str, Null, Unknown, IntString, FloatString, BooleanString]
    lits = [lambda: StringLiteral({"a"}), lambda: StringLiteral({"b", "c"})]
    ts = [lambda a=a: a for a in atoms] + lits
    out = list(ts)
    for f in list(ts):
        out.append(lambda f=f: DList(f()))
        out.append(lambda f=f: DOptional(f()))
    out.append(lambda: DDict(int))
    out.append(lambda: DDict(Unknown))
    out.append(lambda: {"x": int})
    out.append(lambda: {"x": str, "y": DOptional(int)})
    out.append(lambda: DUnion(int, str))
    out.append(lambda: DUnion(DOptional(int), float))
    out.append(lambda: DList(DUnion(int, Null)))
    return out


def oracle_c08_types(idx):
    U = universe()
    gen = MetadataGenerator(str_types_registry=fresh_registry())
    t = DUnion(*[U[i]() for i in idx]) if len(idx) > 1 else U[idx[0]]()
    r1 = gen.optimize_type(t)
    v = nf_violations(r1)
    if v:
        return f"optimize_type({[type_repr(U[i](), False) for i in idx]}) = {type_repr(r1, False)} is not in normal form: {v[:2]}"
    before = type_repr(r1, False)
    r2 = gen.optimize_type(r1)
    if type_repr(r2, False) != before:
        return f"second simplification changes {before} into {type_repr(r2, False)}"
    return None


def oracle_c08_samples(samples):
    reg, gen, roots = infer({"Root": samples})
    for m in reg.models:
        v = nf_violations(m.type)
        if v:
            return f"model {m.index} {type_repr(m, False)} not in normal form: {v[:2]}"
    before = sorted(type_repr(m) for m in reg.models)
    for m in reg.models:
        gen.optimize_type(m)
    if sorted(type_repr(m) for m in reg.models) != before:
        return "re-running simplification on the simplified graph changed it"
    return None


LATE_SAMPLES = [
    [{"d": "2018-12-31"}, {"d": "free text"}],
    [{"d": ["2018-12-31", "12:58", "x y"]}],
    [{"d": "2018-12-31", "t": "12:58"}, {"d": "12", "t": "2018-12-31T12:58:12"}],
]


def oracle_c08_late_registration(i):
    """a generator keeps working with the registry it was given: pseudo-types registered after the generator was built are string
    types for union simplification too (str absorbs them, related ones are resolved)"""
    from json_to_models.dynamic_typing import register_datetime_classes
    from json_to_models.registry import ModelRegistry
    reg_ = fresh_registry()
    gen = MetadataGenerator(str_types_registry=reg_)
    register_datetime_classes(reg_)
    mr = ModelRegistry()
    mr.process_meta_data(gen.generate(*LATE_SAMPLES[i]), model_name="Root")
    mr.merge_models(gen)
    for m in mr.models:
        v = nf_violations(m.type)
        if v:
            return f"registry extended after the generator was created: model {type_repr(m, False)} not in normal form: {v[:2]}"
    return None


@bounded("C08", "late_registered_pseudo_types")
def c08_late(tier, seed):
    r = run_cases(list(range(len(LATE_SAMPLES))), oracle_c08_late_registration, "c08_late")
    r["bound"] = f"{len(LATE_SAMPLES)} inputs mixing date/time/datetime strings with free text, generator created before the date types are registered in its registry"
    r["function"] = "MetadataGenerator.__init__ / _optimize_union against a registry that grows"
    return r


@bounded("C08", "normal_form_type_universe")
def c08_types(tier, seed):
    n = len(universe())
    rng = random.Random(seed)
    idxs = [(i,) for i in range(n)] + [(i, j) for i in range(n) for j in range(n)]
    if tier == "thorough":
        idxs += [(i, j, k) for i in range(n) for j in range(n) for k in range(n)]
    else:
        idxs += [tuple(rng.randrange(n) for _ in range(3)) for _ in range(4000)]
    r = run_cases(idxs, oracle_c08_types, "c08_types")
    r["bound"] = f"universe of {n} depth<=2 types; all singles and ordered pairs; triples: {'all' if tier == 'thorough' else '4000 seeded'}"
    r["function"] = "MetadataGenerator.optimize_type / _optimize_union / DUnion.__init__"
    return r


@bounded("C08", "normal_form_inferred_graphs")
def c08_samples(tier, seed):
    r = run_cases(sample_lists(tier, seed), oracle_c08_samples, "c08_samples")
    r["bound"] = "sample domain of C01; every registered model NF; second pass is the identity"
    r["function"] = "generate + merge_models (second optimisation pass)"
    return r


# ------------------------------------------------------------------------------------------------ C13
def expected_mapping(obj, direct_field, dkf, dkr):
    return (not obj) or (direct_field is not None and direct_field in dkf) or any(all(re.match(r, k) for k in obj) for r in dkr)


def check_c13(value, t, direct_field, dkf, dkr, path="$"):
    t0 = strip_opt(t)
    if isinstance(value, dict):
        cands = [m for m in members(t0) if isinstance(m, (DDict, ModelPtr, ModelMeta, dict))]
        exp = expected_mapping(value, direct_field, dkf, dkr)
        if exp and not any(isinstance(m, DDict) for m in cands):
            return f"{path}: object {jdump(value)[:60]} should be typed Dict[str, T] but is {type_repr(t0, False)}"
        if not exp and not any(isinstance(m, (ModelPtr, ModelMeta, dict)) for m in cands):
            return f"{path}: object {jdump(value)[:60]} should be a model but is {type_repr(t0, False)}"
        if exp:
            # "T then admits every value of every such object"
            if value and not any(isinstance(m, DDict) and all(inh(x, m.type) for x in value.values()) for m in cands):
                return f"{path}: no Dict[str, T] member of {type_repr(t0, False)} admits every value of {jdump(value)[:80]}"
            for m in cands:
                if isinstance(m, DDict):
                    for k, x in value.items():
                        msg = check_c13(x, m.type, None, dkf, dkr, f"{path}.{k}")
                        if msg:
                            return msg
        else:
            for m in cands:
                fields = unwrap_model(m) if isinstance(m, (ModelPtr, ModelMeta)) else (m if isinstance(m, dict) else None)
                if fields is not None:
                    for k, x in value.items():
                        if k in fields:
                            msg = check_c13(x, fields[k], k, dkf, dkr, f"{path}.{k}")
                            if msg:
                                return msg
    elif isinstance(value, list):
        for m in members(t0):
            if isinstance(m, DList):
                for i, x in enumerate(value):
                    msg = check_c13(x, m.type, None, dkf, dkr, f"{path}[{i}]")
                    if msg:
                        return msg
    return None


C13_SAMPLES = [
    {"f": {"1": 1, "2": 2}, "g": {"x": 1}},
    {"f": {"a1": 1}, "g": {"1": "s", "22": "t"}},
    {"f": [{"1": 1}, {"k": 2}], "g": {"1st": 1}},
    {"f": {"k": {"1": 2}}, "g": []},
    {"f": {}, "g": {"1": {"2": 3}}},
    {"h": {"f": {"z": 1}}, "f": 3},
    {"f": [{"f": {"q": 1}}], "g": {"12": 1, "x3": 2}},
    # sibling models that are merged in the second pass, the mapping field required on one side and optional / differently typed on the other
    {"first": {"a": 1, "b": 2, "c": 3, "f": {"k": "x"}}, "others": [{"a": 1, "b": 2, "c": 3, "f": {"k": 1}}, {"a": 1, "b": 2, "c": 3}]},
    {"others": [{"a": 1, "b": 2, "c": 3, "f": {"k": 1.5}}, {"a": 1, "b": 2, "c": 3}], "first": {"a": 1, "b": 2, "c": 3, "f": {"k": [1]}}},
]


def oracle_c13(case):
    samples, dkf, dkr = case
    reg, gen, roots = infer({"Root": samples}, dict_keys_fields=dkf, dict_keys_regex=[f"^{r}$" for r in dkr], merge=[ModelFieldsEquals()])
    for s in samples:
        fields = unwrap_model(roots["Root"])
        if not isinstance(fields, dict):
            return "top-level samples did not become a model"
        for k, x in s.items():
            msg = check_c13(x, fields[k], k, dkf, [f"^{r}$" for r in dkr], f"$.{k}")
            if msg:
                return msg
    return None


def oracle_c13_compiled(case):
    """dict_keys_regex accepts compiled patterns: their flags decide, and equal pattern texts with different flags stay different"""
    import re as _re
    which, = case
    samples = [{"f": {"User_ID": 1, "ORDER_id": 2}, "g": {"user_id": 1, "order_id": 2}, "h": {"Ab": 1}}]
    pats = {"ignorecase": [_re.compile(r"^[a-z]+_id$", _re.I)], "plain": [_re.compile(r"^[a-z]+_id$")],
            "both": [_re.compile(r"^[a-z]+_id$"), _re.compile(r"^[a-z]+_id$", _re.I)],
            "verbose": [_re.compile(r"^ [a-z]+ _id $", _re.X)]}[which]
    gen = MetadataGenerator(str_types_registry=fresh_registry(), dict_keys_regex=list(pats))
    meta = gen.generate(*samples)
    want = {"ignorecase": {"f": True, "g": True}, "plain": {"f": False, "g": True}, "both": {"f": True, "g": True}, "verbose": {"f": False, "g": True}}[which]
    for k, is_map in want.items():
        got = isinstance(strip_opt(meta[k]), DDict)
        if got != is_map:
            return f"compiled pattern set {which!r}: field {k} {'should' if is_map else 'should not'} be Dict[str, T], got {type_repr(meta[k], False)}"
    if isinstance(strip_opt(meta["h"]), DDict):
        return f"compiled pattern set {which!r}: field h matches no pattern but became a mapping"
    return None


@bounded("C13", "compiled_patterns_keep_their_flags")
def c13_compiled(tier, seed):
    r = run_cases([("ignorecase",), ("plain",), ("both",), ("verbose",)], oracle_c13_compiled, "c13_compiled")
    r["bound"] = "4 lists of pre-compiled patterns (IGNORECASE, none, same text with and without a flag, VERBOSE) on one object with three candidate fields"
    r["function"] = "MetadataGenerator.__init__ / _detect_type"
    return r


@bounded("C13", "dict_options_enumerated")
def c13(tier, seed):
    cases = []
    for n in (1, 2):
        for samples in itertools.combinations(C13_SAMPLES, n):
            for dkf in ([], ["f"], ["g"], ["f", "g"]):
                for dkr in ([], [r"\d+"], [r"\d"], [r"[a-z]\d"], [r"\d+", r"[a-z]+"]):
                    cases.append((list(samples), dkf, dkr))
    r = run_cases(cases, oracle_c13, "c13")
    r["bound"] = "9 hand-made objects with digit / mixed keys (two with sibling models merged in the second pass), singles and pairs x 4 field lists x 5 regex lists (partially matching key sets included)"
    r["function"] = "MetadataGenerator._detect_type/_convert/generate"
    return r


ORACLES = {"c13_compiled": lambda c: oracle_c13_compiled(tuple(c)), "c07_policy": oracle_c07_policy, "c08_late": oracle_c08_late_registration, "c01": oracle_c01, "c02": oracle_c02, "c07": oracle_c07, "c08_types": lambda i: oracle_c08_types(tuple(i)),
           "c08_samples": oracle_c08_samples, "c13": lambda c: oracle_c13(tuple(c))}


def replay(w):
    msg = ORACLES[w["replay"]["oracle"]](w["input"])
    print("replay:", "violated: " + msg if msg else "held")
    return 1 if msg else 0
