"""Bounded stand-ins for C05 (similarity graphs), C09 (pseudo-type grammar), C06 (hash seeds), C14 (histories), C15 (threads)."""
import itertools
import json
import math
import os
import random
import subprocess
import sys
import threading

from . import bounded
from .common import (FloatString, IntString, BooleanString, IsoDateString, IsoDatetimeString, IsoTimeString, MetadataGenerator,
                     ModelFieldsEquals, ModelFieldsNumberMatch, ModelFieldsPercentMatch, ModelRegistry, fresh_registry, infer, jdump,
                     pipeline, render, sample_lists, type_repr, StringSerializableRegistry)
from .ir_props import run_cases, vid

HERE = os.path.dirname(os.path.dirname(os.path.abspath(__file__)))


# ------------------------------------------------------------------------------------------------ C05
class TableCmp:
    """comparator driven by an explicit edge table over frozensets of keys (the property's own quantifier)"""

    def __init__(self, edges):
        self.edges = edges

    def cmp(self, a, b):
        return (frozenset(a), frozenset(b)) in self.edges or (frozenset(b), frozenset(a)) in self.edges


def components(n, edges):
    parent = list(range(n))

    def find(x):
        while parent[x] != x:
            parent[x] = parent[parent[x]]
            x = parent[x]
        return x
    for a, b in edges:
        parent[find(a)] = find(b)
    groups = {}
    for i in range(n):
        groups.setdefault(find(i), set()).add(i)
    return sorted(sorted(g) for g in groups.values())


def oracle_c05(case):
    n, edges = case
    edges = [tuple(e) for e in edges]
    # model i has keys {f"k{i}", f"m{i}"}: all key sets distinct, no nesting between the child models
    samples = [{f"c{i}": {f"k{i}": i, f"m{i}": "s"} for i in range(n)}]
    keysets = [frozenset((f"k{i}", f"m{i}")) for i in range(n)]
    table = {(keysets[a], keysets[b]) for a, b in edges}
    gen = MetadataGenerator(str_types_registry=fresh_registry())
    reg = ModelRegistry(TableCmp(table))
    root = reg.process_meta_data(gen.generate(*samples), model_name="Root")
    before = {m.index: set(m.type.keys()) for m in reg.models}
    replaces = reg.merge_models(gen)
    after = [set(m.type.keys()) for m in reg.models]
    exp = components(n, edges)
    exp_sets = [set().union(*[keysets[i] for i in g]) for g in exp]
    root_keys = {f"c{i}" for i in range(n)}
    got = sorted(sorted(s) for s in after if s != root_keys)
    if got != sorted(sorted(s) for s in exp_sets):
        return f"{n} models, edges {edges}: classes after merging {got}, connected components {sorted(sorted(s) for s in exp_sets)}"
    merged_groups = sorted(sorted(sorted(m.type.keys()) for m in grp) for _, grp in replaces)
    exp_groups = sorted(sorted(sorted(keysets[i]) for i in g) for g in exp if len(g) > 1)
    if merged_groups != exp_groups:
        return f"replacement list {merged_groups} does not match the merged components {exp_groups}"
    msg = reference_defects(reg)
    if msg:
        return msg
    # every pointer reachable from the root field types targets a registered model
    for k, t in root.type.type.items():
        tgt = getattr(t, "type", None)
        if hasattr(tgt, "index") and tgt.index not in reg.models_map:
            return f"root field {k} points to unregistered model {tgt.index}"
    return None


def _iter_ptrs(meta):
    from json_to_models.dynamic_typing import BaseType, ModelPtr
    if isinstance(meta, ModelPtr):
        yield meta
    elif isinstance(meta, dict):
        for v in meta.values():
            yield from _iter_ptrs(v)
    elif isinstance(meta, BaseType):
        try:
            it = list(iter(meta))
        except (TypeError, NotImplementedError):
            return
        for nested in it:
            yield from _iter_ptrs(nested)


def reference_defects(reg):
    """'every reference anywhere in the graph points to a model that is still registered' - targets and owners, both directions"""
    registered = reg.models_map

    def is_reg(m):
        return m is not None and registered.get(m.index) is m
    for model in reg.models:
        for field, t in model.type.items():
            for ptr in _iter_ptrs(t):
                if not is_reg(ptr.type):
                    return f"{model}.{field}: pointer targets unregistered {ptr.type}"
                if ptr.parent is not model:
                    return f"{model}.{field}: pointer lives in {model} but its parent is {ptr.parent}"
                if ptr not in ptr.type.pointers:
                    return f"{model}.{field}: pointer is not in the pointer set of its target {ptr.type}"
                if ptr not in model.child_pointers:
                    return f"{model}.{field}: pointer is not among the child pointers of its owner"
        for ptr in model.pointers:
            if ptr.type is not model:
                return f"{model}.pointers holds a pointer to {ptr.type}"
            if ptr.parent is not None and not is_reg(ptr.parent):
                return f"incoming pointer of {model} has unregistered parent {ptr.parent}"
        for ptr in model.child_pointers:
            if ptr.parent is not model:
                return f"{model}.child_pointers holds a pointer owned by {ptr.parent}"
            if not is_reg(ptr.type):
                return f"child pointer of {model} targets unregistered {ptr.type}"
    return None


C05_HISTORIES = [
    # (first batch, later batch): recursive trees, shared sub-objects, lists of objects - merged, then fed more data and merged again
    ([("Tree", {"id": 1, "name": "root", "weight": 1.5, "children": [{"id": 2, "name": "leaf", "weight": 0.5, "children": []}]})],
     [("Tree2", {"id": 7, "name": "other", "weight": 2.5, "children": [], "tag": 1})]),
    ([("A", {"id": 1, "home": {"street": "s", "city": "c", "zip": 1}, "work": {"street": "s", "city": "c", "zip": 2}})],
     [("B", {"id": 2, "addr": {"street": "t", "city": "d", "zip": 3, "floor": 1}})]),
    ([("L", {"items": [{"a": 1, "b": 2, "c": {"k": 1}}, {"a": 1, "b": 2, "c": {"k": 2}, "d": 3}]})],
     [("M", {"items": [{"a": 5, "b": 6, "c": {"k": 3}}], "more": {"a": 1, "b": 2, "c": {"k": 9}}})]),
    ([("N", {"node": {"v": 1, "next": {"v": 2, "next": {"v": 3, "next": None}}}})], [("N2", {"node": {"v": 4, "next": None}, "x": 1})]),
    # registry level only: odd but legal JSON keys (empty, blank) holding objects, owners that are merged
    ([("E", {"p": {"": {"k": 1}, "a": 1, "b": 2, "c": 3}, "q": {"": {"k": 2}, "a": 1, "b": 2, "c": 3}})], [("E2", {"r": {"": {"k": 3}, "a": 1, "b": 2, "c": 3, "d": 4}})]),
    ([("S", {"p": {" ": {"k": 1}, "0": {"j": 1}, "a": 1, "b": 2}, "q": {" ": {"k": 2}, "0": {"j": 2}, "a": 1, "b": 2}})], [("S2", {"p": {" ": {"k": 5}, "a": 1, "b": 2, "z": 0}})]),
]


def oracle_c05_history(i):
    first, later = C05_HISTORIES[i]
    gen = MetadataGenerator(str_types_registry=fresh_registry())
    reg = ModelRegistry()
    for name, doc in first:
        reg.process_meta_data(gen.generate(doc), model_name=name)
    reg.merge_models(gen)
    msg = reference_defects(reg)
    if msg:
        return "after the first merge: " + msg
    for name, doc in later:
        reg.process_meta_data(gen.generate(doc), model_name=name)
    reg.merge_models(gen)
    msg = reference_defects(reg)
    if msg:
        return "after more data and a second merge: " + msg
    reg.merge_models(gen)
    msg = reference_defects(reg)
    if msg:
        return "after a third merge without new data: " + msg
    return None


@bounded("C05", "references_after_repeated_merges")
def c05_hist(tier, seed):
    r = run_cases(list(range(len(C05_HISTORIES))), oracle_c05_history, "c05_history")
    r["bound"] = f"{len(C05_HISTORIES)} two-batch histories (recursive tree, linked list, shared and listed sub-objects) with the default comparators: merge, add data, merge, merge; pointer targets, owners and both pointer sets checked after each"
    r["function"] = "ModelRegistry.merge_models/_merge, ModelPtr.replace/replace_parent"
    return r


def all_graphs(n):
    pairs = list(itertools.combinations(range(n), 2))
    for mask in range(1 << len(pairs)):
        yield [p for i, p in enumerate(pairs) if mask >> i & 1]


def oracle_c05_thresholds(case):
    a, b, pct, num = case
    r = {"percent": ModelFieldsPercentMatch(pct / 100).cmp(set(a), set(b)) if (a or b) else None,
         "number": ModelFieldsNumberMatch(num).cmp(set(a), set(b)), "exact": ModelFieldsEquals().cmp(set(a), set(b))}
    inter, union = len(set(a) & set(b)), len(set(a) | set(b))
    if union and r["percent"] != (inter * 100 >= pct * union):
        return f"percent({pct}) on {a},{b}: {r['percent']}"
    if r["number"] != (inter >= num):
        return f"number({num}) on {a},{b}: {r['number']}"
    if r["exact"] != (set(a) == set(b)):
        return f"exact on {a},{b}"
    return None


@bounded("C05", "similarity_graphs_table_comparator")
def c05(tier, seed):
    cases = []
    for n in ((2, 3, 4) if tier == "quick" else (2, 3, 4, 5)):
        for e in all_graphs(n):
            cases.append((n, e))
    if tier == "quick":
        rng = random.Random(seed)
        g5 = list(all_graphs(5))
        cases += [(5, g) for g in rng.sample(g5, 150)]
    else:
        rng = random.Random(seed)
        cases += [(6, [p for p in itertools.combinations(range(6), 2) if rng.random() < 0.3]) for _ in range(1500)]
    r = run_cases(cases, oracle_c05, "c05")
    r["bound"] = "all similarity graphs on 2..4 models (quick: + 150 seeded on 5; thorough: all on 5 + 1500 seeded on 6) through a table-driven comparator"
    r["function"] = "ModelRegistry.merge_models/_merge"
    return r


def oracle_c05_cli_threshold(n):
    """the comparator the command line builds for `--merge percent_<n>` accepts a pair exactly at n % and rejects one just below"""
    from json_to_models.cli import Cli
    cmp_ = Cli.MODEL_CMP_MAPPING["percent"](str(n))
    whole = set(range(100))
    if not cmp_.cmp(set(range(n)), whole):
        return f"--merge percent_{n}: a pair sharing exactly {n} of 100 keys is rejected"
    if n > 0 and cmp_.cmp(set(range(n - 1)), whole):
        return f"--merge percent_{n}: a pair sharing {n - 1} of 100 keys is accepted"
    num = Cli.MODEL_CMP_MAPPING["number"](str(n))
    if not num.cmp(set(range(n)), whole) or (n > 0 and num.cmp(set(range(n - 1)), whole)):
        return f"--merge number_{n}: wrong decision at the threshold"
    return None


@bounded("C05", "thresholds_as_configured_by_the_cli")
def c05_cli_thr(tier, seed):
    r = run_cases(list(range(0, 101)), oracle_c05_cli_threshold, "c05_cli_thr")
    r["bound"] = "percent_0..percent_100 and number_0..number_100 as converted by Cli.MODEL_CMP_MAPPING, each on a pair exactly at and one key below the threshold (100-key union)"
    r["function"] = "Cli.MODEL_CMP_MAPPING converters + ModelFields*.cmp"
    return r


@bounded("C05", "comparator_thresholds")
def c05_thr(tier, seed):
    keys = ["a", "b", "c", "d"]
    subsets = [list(c) for k in range(0, 5) for c in itertools.combinations(keys, k)]
    cases = [(a, b, pct, num) for a in subsets for b in subsets for pct in (0, 50, 67, 70, 100) for num in (0, 1, 2, 4)]
    r = run_cases(cases, oracle_c05_thresholds, "c05_thr")
    r["bound"] = "all pairs of subsets of 4 keys x 5 percent thresholds x 4 counts (float ratio vs exact integer arithmetic: audit of assumption S2)"
    r["function"] = "ModelFields*.cmp"
    return r


# ------------------------------------------------------------------------------------------------ C09
def grammar(tier, seed):
    rng = random.Random(seed)
    ints = ["0", "1", "12", "-3", "+4", "007", "1_000", " 5", "5 ", "٣", "１２", "0x1f", "1e3", "", "9" * 400, "-" + "1" * 320, "1" + "0" * 308, "9" * 17]
    floats = ["1.5", "-0.5", ".5", "5.", "1e3", "1E-3", "nan", "NaN", "inf", "-inf", "Infinity", "1_0.5", " 1.5 ", "1,5", "1e999", "-1e400", "1e-400",
              "0.1234567890123456789", "123456789012345678.5"]
    bools = ["true", "false", "True", "FALSE", "tRuE", " true", "yes", "1"]
    dates = ["2018-12-31", "2018-1-2", "20181231", "2018-12", "12/31/2018", "2018-12-31 ", "2018-13-01"]
    times = ["12:58", "12:58:12", "12:58:12.123", "12:58:12Z", "25:00", "1258", "04:15:34.0345", "12:30:00.123456", "23:59:59.99999", "00:00:00.000001"]
    dts = ["2018-12-31T12:58:12", "2018-12-31T12:58:12Z", "2018-12-31 12:58", "2018-12-31T12:58:12+03:00", "2018-12-31T",
           "2018-12-31T12:58:12.0345", "2018-12-31T12:58:12.123456+03:00"]
    out = ints + floats + bools + dates + times + dts + ["abc", "a1", "-", "."]
    if tier == "thorough":
        alpha = "0123456789+-.eE_ :TZtruefals/"
        out += ["".join(rng.choice(alpha) for _ in range(rng.randint(1, 10))) for _ in range(20000)]
    else:
        alpha = "0123456789+-.e_ :T"
        out += ["".join(rng.choice(alpha) for _ in range(rng.randint(1, 6))) for _ in range(600)]
    return out


ALL_PSEUDO = [IntString, FloatString, BooleanString, IsoDateString, IsoTimeString, IsoDatetimeString]


def _accepts(t, s):
    try:
        return True, t.to_internal_value(s)
    except ValueError:
        return False, None


def _eq(a, b):
    if isinstance(a, float) and isinstance(b, float) and math.isnan(a) and math.isnan(b):
        return True
    return a == b


def oracle_c09_string(case):
    s, order = case
    types = [ALL_PSEUDO[i] for i in order]
    reg = StringSerializableRegistry()
    for t in types:
        reg.add(cls=t)
    gen = MetadataGenerator(str_types_registry=reg)
    got = gen._detect_type(s)
    first = next((t for t in types if _accepts(t, s)[0]), None)
    if first is None:
        if got in ALL_PSEUDO:
            return f"{s!r} classified {got.__name__} although no registered parser accepts it"
    elif got is not first:
        return f"{s!r}: first accepting type in order {[t.__name__ for t in types]} is {first.__name__}, classified {getattr(got, '__name__', got)}"
    for t in types:
        ok, v = _accepts(t, s)
        if ok:
            r = v.to_representation()
            ok2, v2 = _accepts(t, r)
            if not ok2 or not _eq(v, v2):
                return f"{t.__name__}: parse({s!r})={v!r} renders {r!r} which parses to {v2!r}"
    return None


def oracle_c09_resolve(case):
    idx, strings = case
    from json_to_models.dynamic_typing import registry as default_registry, register_datetime_classes
    reg = StringSerializableRegistry()
    reg.types = list(default_registry.types)
    reg.replaces = set(default_registry.replaces)
    if IsoDateString not in reg.types:
        register_datetime_classes(reg)
    types = [ALL_PSEUDO[i] for i in idx]
    res = reg.resolve(*types)
    if not set(res) <= set(types):
        return f"resolve({[t.__name__ for t in types]}) = {res} is not a subset"
    if len(res) == 1:
        r = next(iter(res))
        for t in types:
            for s in strings:
                if _accepts(t, s)[0] and not _accepts(r, s)[0]:
                    return f"resolve({[t.__name__ for t in types]}) = {r.__name__} but {t.__name__} accepts {s!r} and {r.__name__} does not"
    # pairs of the replace relation must be sound
    for a, b in reg.replaces:
        for s in strings:
            if _accepts(a, s)[0] and not _accepts(b, s)[0]:
                return f"replace pair ({a.__name__} -> {b.__name__}) is unsound on {s!r}"
    return None


@bounded("C09", "grammar_detection_and_round_trip")
def c09(tier, seed):
    strings = grammar(tier, seed)
    orders = [(0, 1, 2), (1, 0, 2), (2, 1, 0), (0, 1, 2, 3, 4, 5), (5, 4, 3, 2, 1, 0), (3, 5, 4, 0, 1, 2), (4, 0), (1,)]
    cases = [(s, o) for s in strings for o in (orders if tier == "thorough" else orders[:5])]
    r = run_cases(cases, oracle_c09_string, "c09_string")
    r["bound"] = f"{len(strings)} strings from the structured grammar (signs, exponents, underscores, whitespace, non-ASCII digits, case variants, ISO fragments) x {len(orders) if tier == 'thorough' else 5} registration orders"
    r["function"] = "_detect_type (string branch), to_internal_value/to_representation x6"
    return r


@bounded("C09", "resolve_soundness_all_subsets")
def c09_resolve(tier, seed):
    strings = grammar("quick", seed)
    cases = [(list(c), strings) for k in range(1, 7) for c in itertools.combinations(range(6), k)]
    r = run_cases(cases, oracle_c09_resolve, "c09_resolve")
    for v in r["violations"]:
        v["input"] = [v["input"][0], "<grammar>"]
    r["bound"] = "all 63 non-empty subsets of the six shipped pseudo-types, default replace relation + datetime registration, against the quick grammar"
    r["function"] = "StringSerializableRegistry.resolve / register_datetime_classes / module-level registrations"
    return r


def _custom_pseudo_types():
    """user pseudo-types as the README shows them: a second date spelling (same python type as IsoDateString), a class that shares
    its NAME with a python type, a second int-like class"""
    import datetime as _dt
    from json_to_models.dynamic_typing import StringSerializable

    class UsDateString(StringSerializable, _dt.date):
        actual_type = _dt.date

        @classmethod
        def to_internal_value(cls, value):
            m, d, y = value.split("/")
            if not (len(y) == 4 and m.isdigit() and d.isdigit() and y.isdigit()):
                raise ValueError(value)
            return cls(int(y), int(m), int(d))

        def to_representation(self):
            return f"{self.month:02d}/{self.day:02d}/{self.year:04d}"

    class HexString(StringSerializable, int):
        actual_type = int

        @classmethod
        def to_internal_value(cls, value):
            if not value.startswith("0x"):
                raise ValueError(value)
            return cls(int(value, 16))

        def to_representation(self):
            return hex(self)

    class date(StringSerializable, str):        # a pseudo-type whose own name is the name others have as their python type
        actual_type = str

        @classmethod
        def to_internal_value(cls, value):
            if not value.startswith("d:"):
                raise ValueError(value)
            return cls(value)

        def to_representation(self):
            return str(self)
    return {"UsDateString": UsDateString, "HexString": HexString, "date": date}


def oracle_c09_remove_by_name(case):
    """disabling by name removes EVERY registered pseudo-type whose own name or whose python type's name is that name - wherever
    they stand in the registration order - and nothing else; afterwards none of them is detected"""
    order, name = case
    from json_to_models.dynamic_typing import StringSerializableRegistry
    custom = _custom_pseudo_types()
    pool = {"IntString": IntString, "FloatString": FloatString, "BooleanString": BooleanString, "IsoDateString": IsoDateString,
            "IsoTimeString": IsoTimeString, "IsoDatetimeString": IsoDatetimeString, **custom}
    r = StringSerializableRegistry()
    for nm in order:
        if nm == "FloatString" and "IntString" in order[:order.index(nm)]:
            r.add(replace_types=(IntString,), cls=FloatString)
        elif nm == "HexString" and "IntString" in order[:order.index(nm)]:
            r.add(replace_types=(IntString,), cls=pool[nm])
        else:
            r.add(cls=pool[nm])
    before = list(r.types)
    r.remove_by_name(name)
    named = [t for t in before if t.__name__ == name or t.actual_type.__name__ == name]
    left = [t for t in r.types if t in named]
    if left:
        return f"registry {list(order)}: after remove_by_name({name!r}) still registered: {[t.__name__ for t in left]}"
    lost = [t for t in before if t not in named and t not in r.types]
    if lost:
        return f"registry {list(order)}: remove_by_name({name!r}) also removed {[t.__name__ for t in lost]}"
    stale = [p for p in r.replaces if p[0] in named or p[1] in named]
    if stale:
        return f"registry {list(order)}: a replace pair still mentions a removed type: {stale}"
    gen = MetadataGenerator(str_types_registry=r)
    for text in ("12", "1.5", "true", "2018-12-31", "12/31/2018", "12:30", "2018-12-31T12:30:00", "0x1f", "d:x"):
        t = gen._detect_type(text)
        if t in named:
            return f"registry {list(order)}: {text!r} is still detected as the disabled {t.__name__}"
    return None


@bounded("C09", "disable_by_name_removes_every_match")
def c09_remove_by_name(tier, seed):
    orders = [("IntString", "FloatString", "BooleanString", "IsoDateString", "UsDateString", "IsoTimeString"),
              ("UsDateString", "IsoDateString", "IntString"), ("IsoDateString", "IntString", "UsDateString"),
              ("IntString", "HexString", "FloatString"), ("HexString", "IntString", "BooleanString", "FloatString"),
              ("IsoDateString", "date", "UsDateString"), ("date", "UsDateString", "IsoDateString", "IsoDatetimeString"),
              ("IntString", "FloatString", "BooleanString")]
    names = ["date", "int", "float", "bool", "IntString", "UsDateString", "str", "time", "nothing"]
    if tier == "thorough":
        rng = random.Random(seed)
        pool = ["IntString", "FloatString", "BooleanString", "IsoDateString", "IsoTimeString", "IsoDatetimeString", "UsDateString", "HexString", "date"]
        orders += [tuple(rng.sample(pool, rng.randint(2, 9))) for _ in range(300)]
    cases = [(o, n) for o in orders for n in names]
    r = run_cases(cases, oracle_c09_remove_by_name, "c09_remove_by_name")
    r["bound"] = f"{len(orders)} registries (shipped pseudo-types plus three user ones: several classes with one python type, a class named like a python type; adjacent and separated) x {len(names)} names"
    r["function"] = "StringSerializableRegistry.remove_by_name / remove"
    return r


# ------------------------------------------------------------------------------------------------ C06
C06_INPUTS = [
    {"Root": [{"p": {"a": 1, "b": 2, "c": 3}, "q": [{"a": 1, "b": 2, "c": "x"}, {"b": 1, "a": 2}]}]},
    {"Root": [{"x": {"k1": 1, "k2": "a"}, "y": {"k2": "b", "k1": 2.5, "k3": None}, "z": [{"k1": "s", "k2": 1}]}]},
    {"Root": [{"s": "on"}, {"s": "ON"}, {"s": "On"}, {"s": "off"}], "Other": [{"s": "b"}, {"s": "a"}, {"t": ["1", "x"]}]},
    {"A": [{"item": {"v": 1}, "items": [{"v": 2, "w": None}]}], "B": [{"item": {"v": "s"}}]},
]

def _shared_children():
    """several parents that share the same identical sub-objects (merged into shared models placed after their common parents)"""
    data = {}
    for p_ in range(4):
        d = {f"p{p_}_{j}": j for j in range(6)}
        for s_ in range(3):
            d[f"sh{s_}"] = {f"s{s_}_{j}": j for j in range(2 + s_)}
        if p_ < 3:
            d["sh3"] = {f"s3_{j}": j for j in range(3)}
        data[f"par{p_}"] = d
    for c_ in range(2):
        data[f"tail{c_}"] = {f"t{c_}_{j}": 1.5 for j in range(3 + c_)}
    return data


C06_INPUTS.append({"Root": [_shared_children()]})


def _many_similar_sections(n=30):
    """more than 26 similar nested objects in one merge group (model indexes 1A..1Z, 2A..: ids of different lengths / equal last
    letters), each with its own extra key and alternating value types, so the order in which the group is merged shows in the output"""
    doc = {"version": 3}
    for i in range(n):
        sec = {"host": f"h{i}", "port": 8000 + i, "enabled": True, "weight": 1.5, "retries": 3, "tags": ["a"], f"extra_{i:02d}": i,
               "limit": i if i % 2 else bool(i % 4)}
        doc[f"svc_{i:02d}"] = sec
    return doc


C06_INPUTS.append({"Config": [_many_similar_sections()]})

C06_SCRIPT = r'''
import json, sys
sys.path.insert(0, sys.argv[1]); sys.path.insert(0, sys.argv[2])
from bounded.common import pipeline
data = json.loads(sys.argv[3])
out = []
for fw in ("pydantic", "attrs", "dataclasses"):
    for layout in ("flat",):
        reg, roots, code = pipeline(data, fw, layout)
        out.append(code)
sys.stdout.write(json.dumps(out))
'''


def oracle_c06(case):
    data, seeds = case
    outs = {}
    repo = os.environ.get("VERIF_REPO", "/repo")
    for sd in seeds:
        env = dict(os.environ, PYTHONHASHSEED=str(sd), PYTHONPATH=f"{repo}:{HERE}")
        p = subprocess.run([sys.executable, "-c", C06_SCRIPT, repo, HERE, json.dumps(data)], capture_output=True, text=True, env=env, timeout=120)
        if p.returncode != 0:
            return f"pipeline failed under PYTHONHASHSEED={sd}: {p.stderr[-300:]}"
        outs.setdefault(p.stdout, []).append(sd)
    if len(outs) > 1:
        groups = list(outs.values())
        a, b = list(outs)[:2]
        diff = next((i for i, (x, y) in enumerate(zip(a, b)) if x != y), 0)
        return f"{len(outs)} distinct outputs over hash seeds {groups}; first difference near {a[max(0, diff - 40):diff + 40]!r}"
    return None


@bounded("C06", "hash_seed_independence")
def c06(tier, seed):
    seeds = list(range(0, 6)) if tier == "quick" else list(range(0, 24))
    inputs = list(C06_INPUTS)
    if tier == "thorough":
        from .common import STRUCTURED
        inputs += [{"Root": s_} for s_ in STRUCTURED]
    cases = [(d, seeds) for d in inputs]
    r = run_cases(cases, oracle_c06, "c06")
    r["bound"] = f"{len(inputs)} inputs built to exercise merges of differently ordered / differently typed models and case-variant literals x PYTHONHASHSEED {seeds[0]}..{seeds[-1]} in fresh processes x 3 frameworks"
    r["function"] = "whole pipeline (fresh process per seed)"
    return r


# ------------------------------------------------------------------------------------------------ C14 / C15
HIST_INPUTS = [
    ({"Root": [{"a": {"x": 1}, "b": "s"}]}, "pydantic", "flat", {}),
    ({"Root": [{"a": {"x": 1, "y": {"z": 2}}, "c": [{"y": {"z": 1}}]}]}, "dataclasses", "nested", {}),
    ({"Order": [{"geo": {"lat": 1}, "items": [{"geo": {"lat": 2}, "n": 1}], "ship": {"geo": {"lat": 3}, "m": 2}}]}, "attrs", "nested", {}),
    ({"Root": [{"s": "a"}, {"s": "b"}, {"s": "c"}]}, "base", "flat", {"max_literals": 2}),
    ({"Root": [{"s": "a"}, {"s": "b"}]}, "pydantic", "flat", {"max_literals": 0}),
    ({"Root": [{"Root": 1, "root": {"Root": 2}}]}, "pydantic", "flat", {}),
    ({"Root": [{"n": "1"}, {"n": "2.5"}]}, "pydantic", "flat", {"types_style": "literal_off"}),
    ({"Root": [{"a": {"x": 1}}]}, "pydantic", "nested", {"meta": True}),        # raises inside code generation (bad kwarg)
    ({"Root": [{"n": "1", "f": "2.5", "s": "x"}]}, "attrs", "flat", {"post_init_converters": True}),
    ({"Root": [{"n": "1", "f": "2.5", "s": "x"}]}, "dataclasses", "flat", {"post_init_converters": True}),
    ({"Root": [{"n": "1", "f": "2.5", "s": "x"}]}, "base", "flat", {"post_init_converters": True}),
    ({"Root": [{"s": "a"}, {"s": "b"}]}, "attrs", "flat", {"types_style": "literal_on"}),
    ({"Root": [{"s": "a"}, {"s": "b"}]}, "attrs", "flat", {}),
    ({"Root": [{"s": "a"}, {"s": "b"}]}, "dataclasses", "flat", {"types_style": "literal_off"}),
    ({"Root": [{"s": "a"}, {"s": "b"}]}, "dataclasses", "flat", {}),
    # unicode conversion off (field sorting then walks the types), class names that prepare_label escapes, same shape with another key order
    ({"Root": [{"a": {"x": 1}, "b": [{"y": "s"}], "c": 1.5}, {"a": {"x": 2}}]}, "attrs", "flat", {"convert_unicode": False}),
    ({"Root": [{"warnings": {"w": 1}, "list": {"l": {"any": {"z": 1}}}, "field": {"f": 2}}]}, "pydantic", "nested", {}),
    ({"Root": [{"k1": 1, "k2": "s", "k3": None, "k4": [1]}]}, "dataclasses", "flat", {}),
    ({"Root": [{"k4": [1], "k3": None, "k2": "s", "k1": 1}]}, "dataclasses", "flat", {}),
    # unions with a member whose rendering depends on the framework / the literal limit
    ({"Root": [{"v": 1, "w": [1, "x"]}, {"v": "open", "w": ["y"]}, {"v": "closed", "w": []}]}, "dataclasses", "flat", {}),
    ({"Root": [{"v": {"k": 1}, "n": "1"}, {"v": "open", "n": 2.5}]}, "pydantic", "nested", {}),
    # explicit registries that are edited (a pseudo-type removed / a replacement added), and the module-level default registry
    ({"Root": [{"p": "1"}, {"p": "1.5"}]}, "attrs", "flat", {"registry": "no_float"}),
    ({"Root": [{"p": "1"}, {"p": "1.5"}, {"q": "true"}]}, "attrs", "flat", {"registry": "default"}),
    ({"Root": [{"p": "1"}, {"p": "true"}]}, "attrs", "flat", {"registry": "bool_replaces_int"}),
    ({"Root": [{"p": "1"}, {"p": "1.5"}]}, "pydantic", "flat", {"registry": "fresh"}),
]


def run_one(i):
    data, fw, layout, kw = HIST_INPUTS[i]
    kw = dict(kw)
    if kw.get("types_style") == "literal_off":
        from json_to_models.dynamic_typing import StringLiteral
        kw["types_style"] = {StringLiteral: {StringLiteral.TypeStyle.use_literals: False}}
    if kw.get("types_style") == "literal_on":
        from json_to_models.dynamic_typing import StringLiteral
        kw["types_style"] = {StringLiteral: {StringLiteral.TypeStyle.use_literals: True}}
    infer_kw = {}
    which = kw.pop("registry", None)
    if which is not None:
        from json_to_models.dynamic_typing import registry as default_registry
        r = fresh_registry()
        if which == "no_float":
            r.remove(FloatString)
        elif which == "bool_replaces_int":
            r.add(replace_types=(IntString,), cls=BooleanString)
            r.remove(BooleanString)
        infer_kw["str_registry"] = default_registry if which == "default" else r
    try:
        return pipeline(data, fw, layout, gen_kwargs=kw, **infer_kw)[2]
    except Exception as e:
        return f"<raised {type(e).__name__}>"


def alone(i):
    """what call i produces in a fresh process"""
    repo = os.environ.get("VERIF_REPO", "/repo")
    code = f"import sys; sys.path.insert(0, {repo!r}); sys.path.insert(0, {HERE!r}); from bounded.misc_props import run_one; sys.stdout.write(run_one({i}))"
    p = subprocess.run([sys.executable, "-c", code], capture_output=True, text=True, env=dict(os.environ, PYTHONPATH=f"{repo}:{HERE}"), timeout=120)
    return p.stdout if p.returncode == 0 else f"<process failed: {p.stderr[-200:]}>"


_alone_cache = {}


def oracle_c14(seq):
    from .common import shared_state_snapshot
    for i in seq:
        if i not in _alone_cache:
            _alone_cache[i] = alone(i)
    for pos, i in enumerate(seq):
        before = shared_state_snapshot()
        got = run_one(i)
        after = shared_state_snapshot()
        if after != before:
            diff = [k for k in before if before[k] != after[k]]
            return f"call {i} wrote shared state {diff}: {[(before[k], after[k]) for k in diff][:1]}"
        if got != _alone_cache[i]:
            return f"call {i} at position {pos} of history {list(seq)} differs from what it gives in a fresh process"
    return None


def oracle_c14_rerender(i):
    data, fw, layout, kw = HIST_INPUTS[i]
    if "types_style" in kw or "meta" in kw or "registry" in kw:
        return None
    reg, gen, roots = infer(data)
    first = render(reg, fw, layout, **kw)
    again = render(reg, fw, layout, **kw)
    if first != again:
        return f"rendering input {i} twice from one registry differs"
    for fw2 in ("attrs", "pydantic", "dataclasses"):
        got2 = render(reg, fw2, "flat")
        reg2, _gen2, _roots2 = infer(data)
        if got2 != render(reg2, fw2, "flat"):
            return f"input {i}: {fw2} rendered from a registry that {fw} rendered before differs from {fw2} rendered from a fresh registry"
    for mx in (0, 1, 10):
        reg3, _g3, _r3 = infer(data)
        if render(reg, "pydantic", "flat", max_literals=mx) != render(reg3, "pydantic", "flat", max_literals=mx):
            return f"input {i}: max_literals={mx} rendered from an already rendered registry differs from a fresh one"
    if render(reg, fw, layout, **kw) != first:
        return f"rendering input {i} after other frameworks/layouts differs from the first rendering"
    return None


def oracle_c14_shared_options(case):
    """one option dict passed to several renderings: each gives what it gives with a private copy of the same options, and the
    caller's dict is left as it was"""
    import copy
    from json_to_models.dynamic_typing import StringLiteral, StringSerializable
    order, which = case
    styles = {
        "literal_off": {StringLiteral: {StringLiteral.TypeStyle.use_literals: False}},
        "literal_on": {StringLiteral: {StringLiteral.TypeStyle.use_literals: True}},
        "empty_inner": {StringLiteral: {}},
    }
    shared = copy.deepcopy(styles[which])
    snapshot = repr(shared)
    data = {"Root": [{"s": "a", "n": "1"}, {"s": "b", "n": "2.5"}]}
    reg, gen, roots = infer(data)
    for fw in order:
        expected = render(reg, fw, "flat", types_style=copy.deepcopy(styles[which]))
        got = render(reg, fw, "flat", types_style=shared)
        if got != expected:
            return f"{fw} rendered after {order[:order.index(fw)]} with a shared types_style dict differs from a rendering with a private copy"
        if repr(shared) != snapshot:
            return f"rendering {fw} modified the caller's types_style dict: {snapshot} -> {repr(shared)}"
    return None


@bounded("C14", "shared_option_dict_across_renderings")
def c14_shared(tier, seed):
    orders = [("pydantic", "attrs"), ("attrs", "pydantic"), ("dataclasses", "attrs", "pydantic"), ("pydantic", "dataclasses", "base"), ("attrs", "attrs")]
    cases = [(o, w) for o in orders for w in ("literal_off", "literal_on", "empty_inner")]
    r = run_cases(cases, oracle_c14_shared_options, "c14_shared")
    r["bound"] = "5 orders of 2-3 frameworks x 3 types_style dicts, the same dict object passed to every rendering"
    r["function"] = "GenericModelCodeGenerator.__init__ (option resolution)"
    return r


@bounded("C14", "history_independence")
def c14(tier, seed):
    n = len(HIST_INPUTS)
    rng = random.Random(seed)
    seqs = [(i, j) for i in range(n) for j in range(n)]
    seqs += [tuple(rng.randrange(n) for _ in range(rng.choice((3, 4)))) for _ in range(40 if tier == "quick" else 600)]
    r = run_cases(seqs, oracle_c14, "c14")
    r2 = run_cases(list(range(n)), oracle_c14_rerender, "c14_rerender")
    r["evaluations"] += r2["evaluations"]
    r["distinct"] += r2["distinct"]
    r["violations"] += r2["violations"]
    r["bound"] = f"{n} generation/render calls (frameworks, layouts, options, one that raises inside code generation): all ordered pairs + seeded sequences of 3-4, each compared with the same call in a fresh process; re-rendering one registry"
    r["function"] = "whole pipeline within one process"
    return r


def oracle_c15(case):
    idxs, switch = case
    from .common import shared_state_snapshot
    snap0 = shared_state_snapshot()
    expected = {i: run_one(i) for i in set(idxs)}
    if shared_state_snapshot() != snap0:
        return f"pipelines {sorted(set(idxs))} wrote shared (class-level / module-level) state: concurrent runs can observe it"
    old = sys.getswitchinterval()
    sys.setswitchinterval(switch)
    results = [None] * len(idxs)
    errors = []
    barrier = threading.Barrier(len(idxs))

    def work(k, i):
        try:
            barrier.wait(timeout=10)
            for _ in range(8):
                results[k] = run_one(i)
                if results[k] != expected[i]:
                    break
        except Exception as e:
            errors.append(f"{type(e).__name__}: {e}")
    try:
        ts = [threading.Thread(target=work, args=(k, i)) for k, i in enumerate(idxs)]
        for t in ts:
            t.start()
        for t in ts:
            t.join(60)
    finally:
        sys.setswitchinterval(old)
    if errors:
        return f"worker thread failed: {errors[0]}"
    for k, i in enumerate(idxs):
        if results[k] != expected[i]:
            return f"pipeline {i} produced different output when run concurrently with {list(idxs)}"
    return None


def oracle_c15_cli(case):
    """Cli objects used concurrently (one per thread, parse then run): each prints what it prints when run alone.  Barriers force the
    parse-to-run windows to overlap; the header (which echoes the process-wide sys.argv) is stripped."""
    import io
    import contextlib
    import tempfile
    import shutil
    from json_to_models.cli import Cli
    policies, = case
    d = tempfile.mkdtemp(prefix="j2m_c15_")
    try:
        p = os.path.join(d, "in.json")
        # p and q share 3 of 5 field names: merged under percent_50 / number_3, kept apart under exact / percent_90
        json.dump({"p": {"a": 1, "b": 2, "c": 3, "d": 4}, "q": {"a": 1, "b": 2, "c": 3, "e": 5}}, open(p, "w"))

        def strip(text):
            end = text.index('\n"""\n', 4)
            return text[end + 5:]

        def alone(pol):
            c = Cli()
            c.parse_args(["-m", "Root", p, "--merge"] + pol.split())
            return strip(c.run())
        expected = [alone(pol) for pol in policies]
        n = len(policies)
        results = [None] * n
        errors = []
        parsed = threading.Barrier(n)

        def work(k):
            try:
                c = Cli()
                c.parse_args(["-m", "Root", p, "--merge"] + policies[k].split())
                parsed.wait(timeout=20)
                results[k] = strip(c.run())
            except Exception as e:
                errors.append(f"{type(e).__name__}: {e}")
        old = sys.getswitchinterval()
        sys.setswitchinterval(1e-6)
        try:
            ts = [threading.Thread(target=work, args=(k,)) for k in range(n)]
            for t in ts:
                t.start()
            for t in ts:
                t.join(60)
        finally:
            sys.setswitchinterval(old)
        if errors:
            return f"concurrent Cli pipeline failed: {errors[0]}"
        for k in range(n):
            if results[k] != expected[k]:
                return f"Cli pipeline with --merge {policies[k]} printed different models when run concurrently with {list(policies)}"
    finally:
        shutil.rmtree(d, ignore_errors=True)
    return None


@bounded("C15", "concurrent_cli_objects")
def c15_cli(tier, seed):
    cases = [(("exact", "percent_50"),), (("percent_50", "exact"),), (("percent_90", "number_3", "exact"),), (("number_3", "exact", "percent_50", "percent_90"),)]
    r = run_cases(cases * (3 if tier == "quick" else 30), oracle_c15_cli, "c15_cli")
    r["bound"] = "2-4 Cli objects (one per thread) with different --merge policies on an input where the policies disagree, parse-to-run windows forced to overlap, 3 (quick) / 30 (thorough) repetitions"
    r["function"] = "Cli.__init__ / parse_args / set_args / run"
    return r


@bounded("C15", "threads_single_and_concurrent")
def c15(tier, seed):
    rng = random.Random(seed)
    ok = [i for i in range(len(HIST_INPUTS))]
    cases = [((i,), 1e-6) for i in ok]
    # the nested-layout inputs with a non-empty reference-path mapping, against every other pipeline
    cases += [((2, i, 2, i), 1e-6) for i in ok] + [((1, 2, 7, 2, 0, 2), 1e-6)]
    for _ in range(25 if tier == "quick" else 300):
        k = rng.randint(2, 8)
        cases.append((tuple(rng.choice(ok) for _ in range(k)), 1e-6))
    r = run_cases(cases, oracle_c15, "c15")
    r["bound"] = "single calls from a fresh worker thread; 2-8 concurrent pipelines (barrier start, 3 repetitions each) under a 1 microsecond switch interval; schedules are sampled, not enumerated"
    r["function"] = "whole pipeline in threads"
    return r


ORACLES = {"c15_cli": lambda c: oracle_c15_cli((tuple(c[0]),)), "c14_shared": lambda c: oracle_c14_shared_options((tuple(c[0]), c[1])), "c05_cli_thr": oracle_c05_cli_threshold, "c05_history": oracle_c05_history, "c05": lambda c: oracle_c05(tuple(c)), "c05_thr": lambda c: oracle_c05_thresholds(tuple(c)), "c09_string": lambda c: oracle_c09_string(tuple(c)), "c09_remove_by_name": lambda c: oracle_c09_remove_by_name((tuple(c[0]), c[1])),
           "c09_resolve": lambda c: oracle_c09_resolve((c[0], grammar("quick", 0))), "c06": lambda c: oracle_c06(tuple(c)),
           "c14": oracle_c14, "c14_rerender": oracle_c14_rerender, "c15": lambda c: oracle_c15(tuple(c)),
           "c14_cli": lambda c: oracle_c14_cli(tuple(c))}


def replay(w):
    msg = ORACLES[w["replay"]["oracle"]](w["input"])
    print("replay:", "violated: " + msg if msg else "held")
    return 1 if msg else 0


@bounded("C06", "same_call_again_in_one_process")
def c06_repeat(tier, seed):
    """'a deterministic function of inputs and options' also within one process: a call, an unrelated call with other options, the
    first call again - all equal to what the call gives in a fresh process"""
    n = len(HIST_INPUTS)
    overriding = [j for j in range(n) if HIST_INPUTS[j][3]]
    seqs = [(i, j, i) for i in range(n) for j in overriding if i != j]
    if tier == "quick":
        rng = random.Random(seed)
        seqs = [s_ for s_ in seqs if s_[0] % 2 == 0 or rng.random() < 0.25]
    r = run_cases(seqs, oracle_c14, "c14")
    r["bound"] = f"{len(seqs)} triples (call, call with overriding options, first call again) over {n} generation calls, each compared with a fresh process"
    r["function"] = "whole pipeline within one process"
    return r


# ------------------------------------------------------------------------------------------------ C14: a CLI run followed by library calls
_CLI_THEN_LIB = r"""
import io, json, os, sys, tempfile, contextlib
sys.path.insert(0, {repo!r}); sys.path.insert(0, {here!r})
from bounded.common import MetadataGenerator, ModelRegistry, compose_models_flat, generate_code, PydanticModelCodeGenerator
def lib():
    gen = MetadataGenerator()                       # default (module-level) string registry, as a library user gets it
    reg = ModelRegistry()
    reg.process_meta_data(gen.generate({{"d": "2018-12-31", "n": "12"}}), model_name="Root")
    reg.merge_models(gen); reg.generate_names()
    return generate_code(compose_models_flat(reg.models_map), PydanticModelCodeGenerator)
def lib_own_registry():
    # a library user who passes an OWN registry is isolated from whatever happened to the module-level default one
    from bounded.common import fresh_registry
    gen = MetadataGenerator(str_types_registry=fresh_registry(datetime=True))
    reg = ModelRegistry()
    reg.process_meta_data(gen.generate({{"price": "12", "when": "2018-12-31", "b": "true"}}, {{"price": "1.5", "when": "12:30", "b": "1"}}), model_name="Root")
    reg.merge_models(gen); reg.generate_names()
    return generate_code(compose_models_flat(reg.models_map), PydanticModelCodeGenerator)
before = lib()
before_own = lib_own_registry()
d = tempfile.mkdtemp(prefix="j2m_c14_")
p = os.path.join(d, "in.json"); open(p, "w").write(json.dumps({{"k": 1}}))
from json_to_models.cli import Cli
argv = ["-m", "M", p] + {extra!r}
old = sys.argv; sys.argv = ["json2models"] + argv
try:
    with contextlib.redirect_stdout(io.StringIO()):
        c = Cli(); c.parse_args(argv); c.run()
finally:
    sys.argv = old
    import shutil; shutil.rmtree(d, ignore_errors=True)
after = lib()
after_own = lib_own_registry()
if before_own != after_own:
    sys.stdout.write("OWN\n--- before\n" + before_own + "\n--- after\n" + after_own)
else:
    sys.stdout.write("SAME" if before == after else "DIFF\n--- before\n" + before + "\n--- after\n" + after)
"""


def oracle_c14_cli(extra):
    repo = os.environ.get("VERIF_REPO", "/repo")
    code = _CLI_THEN_LIB.format(repo=repo, here=HERE, extra=list(extra))
    p = subprocess.run([sys.executable, "-c", code], capture_output=True, text=True, env=dict(os.environ, PYTHONPATH=f"{repo}:{HERE}"), timeout=180)
    if p.returncode != 0:
        raise RuntimeError("probe process failed: " + p.stderr[-300:])
    if p.stdout.startswith("OWN"):
        return "OWN: a library generation with its OWN string registry gives different text after an in-process CLI run with " + \
            " ".join(extra) + ": " + p.stdout[:500].replace("\n", " | ")
    if not p.stdout.startswith("SAME"):
        return "a library generation with the default string registry gives different text after an in-process CLI run with " + \
            " ".join(extra) + ": " + p.stdout[:400].replace("\n", " | ")
    return None


@bounded("C14", "cli_run_then_library_call")
def c14_cli(tier, seed):
    """the CLI front end is one of the 'earlier generations in the same process': a later library call must not see it"""
    from .ir_props import run_cases
    cases = [(), ("--datetime",), ("--disable-str-serializable-types", "int"), ("-f", "attrs"), ("--max-strings-literals", "0"),
             ("--disable-str-serializable-types", "float")]
    viol = []
    ev = 0
    for extra in cases:
        ev += 1
        msg = oracle_c14_cli(extra)
        if msg:
            # a generation with its own registry that changes is a different witness from the (listed) default-registry findings
            viol.append({"id": ("cli-then-own-registry:" if msg.startswith("OWN") else "cli-then-library:") + " ".join(extra), "input": list(extra), "what": msg,
                         "replay": {"module": __name__, "fn": "replay", "oracle": "c14_cli"}})
    return {"evaluations": ev, "distinct": ev, "violations": viol,
            "bound": "6 CLI option sets run in-process (fresh interpreter each), each followed by a library generation with the default registry and one with its own registry (mixed int/float/bool/date/time strings), compared with the same generations before the run",
            "function": "Cli.parse_args / Cli.run against the module-level default registry"}
