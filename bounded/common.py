"""Shared helpers of the bounded stand-ins: the library pipeline, sample domains, rendering helpers."""
import itertools
import json
import random

from pyvc.rtc import ensure_repo_on_path

ensure_repo_on_path()

from json_to_models.dynamic_typing import (  # noqa: E402
    DDict, DList, DOptional, DUnion, ModelMeta, ModelPtr, Null, StringLiteral, StringSerializableRegistry, Unknown,
    BooleanString, FloatString, IntString, IsoDateString, IsoDatetimeString, IsoTimeString,
)
from json_to_models.generator import MetadataGenerator  # noqa: E402
from json_to_models.models.attr import AttrsModelCodeGenerator  # noqa: E402
from json_to_models.models.base import GenericModelCodeGenerator, generate_code  # noqa: E402
from json_to_models.models.dataclasses import DataclassModelCodeGenerator  # noqa: E402
from json_to_models.models.pydantic import PydanticModelCodeGenerator  # noqa: E402
from json_to_models.models.sqlmodel import SqlModelCodeGenerator  # noqa: E402
from json_to_models.models.structure import compose_models, compose_models_flat  # noqa: E402
from json_to_models.registry import ModelFieldsEquals, ModelFieldsNumberMatch, ModelFieldsPercentMatch, ModelRegistry  # noqa: E402

GENERATORS = {
    "base": GenericModelCodeGenerator, "pydantic": PydanticModelCodeGenerator, "sqlmodel": SqlModelCodeGenerator,
    "attrs": AttrsModelCodeGenerator, "dataclasses": DataclassModelCodeGenerator,
}


def fresh_registry(datetime=False):
    r = StringSerializableRegistry()
    r.add(cls=IntString)
    r.add(replace_types=(IntString,), cls=FloatString)
    r.add(cls=BooleanString)
    if datetime:
        r.add(cls=IsoDateString)
        r.add(cls=IsoTimeString)
        r.add(cls=IsoDatetimeString)
    return r


def infer(samples_by_name, merge=None, dict_keys_regex=None, dict_keys_fields=None, str_registry=None, datetime=False):
    """library pipeline up to the named model graph; returns (registry, generator, root pointers)"""
    gen = MetadataGenerator(str_types_registry=str_registry if str_registry is not None else fresh_registry(datetime),
                            dict_keys_regex=dict_keys_regex, dict_keys_fields=dict_keys_fields)
    reg = ModelRegistry(*(merge if merge is not None else ()))
    roots = {}
    for name, samples in samples_by_name.items():
        meta = gen.generate(*samples)
        roots[name] = reg.process_meta_data(meta, model_name=name)
    reg.merge_models(gen)
    reg.generate_names()
    return reg, gen, roots


def render(reg, framework="pydantic", layout="flat", preamble=None, **kwargs):
    structure = (compose_models_flat if layout == "flat" else compose_models)(reg.models_map)
    return generate_code(structure, GENERATORS[framework], class_generator_kwargs=kwargs, preamble=preamble)


def pipeline(samples_by_name, framework="pydantic", layout="flat", gen_kwargs=None, **infer_kwargs):
    reg, gen, roots = infer(samples_by_name, **infer_kwargs)
    return reg, roots, render(reg, framework, layout, **(gen_kwargs or {}))


# ------------------------------------------------------------------------------------------------ sample domains
SCALARS = [1, 2.5, True, None, "abc", "xyz", "", "12", "1.5", "true", "cafe\u0301", "\u212b"]
CONTAINERS = [[], {}, [1], [None], ["abc", 2], [1, 2.5], [[]], [{"k": 1}], {"k": 1}, {"k": None}, {"k": 1, "m": "s"}, [{"k": 1}, {"m": 2}]]
VALUES = SCALARS + CONTAINERS


def objects(keys=("a", "b"), values=VALUES):
    out = [{}]
    for k in keys:
        out += [{k: v} for v in values]
    if len(keys) >= 2:
        out += [{keys[0]: v, keys[1]: w} for v in values for w in values]
    return out


def sample_lists(tier, seed, keys=("a", "b"), max_pairs=None):
    """deterministic stream of non-empty sample lists: all single objects, a systematic core of pairs, a seeded sample of
    pairs and triples"""
    rng = random.Random(seed)
    objs = objects(keys)
    for s_ in STRUCTURED:
        yield s_
    for o in objs:
        yield [o]
    core = [{}] + [{keys[0]: v} for v in VALUES]
    for a in core:
        for b in core:
            yield [a, b]
    n = max_pairs if max_pairs is not None else (300 if tier == "quick" else 60000)
    for _ in range(n):
        k = rng.choice((2, 2, 3)) if tier == "quick" else rng.choice((2, 3, 3, 4))
        yield [rng.choice(objs) for _ in range(k)]
    if tier == "thorough":
        yield from random_sample_lists(seed, 40000)


def random_value(rng, depth):
    """random JSON value over small alphabets (thorough tier): scalars, lists of <= 3, objects of <= 2 keys, depth <= 3"""
    r = rng.random()
    if depth <= 0 or r < 0.45:
        return rng.choice(SCALARS)
    if r < 0.72:
        return [random_value(rng, depth - 1) for _ in range(rng.choice((0, 1, 1, 2, 3)))]
    return {k: random_value(rng, depth - 1) for k in rng.sample(("k", "m", "n"), rng.choice((0, 1, 2, 2)))}


def random_sample_lists(seed, n):
    rng = random.Random(seed * 7919 + 13)
    for _ in range(n):
        yield [{k: random_value(rng, 3) for k in rng.sample(("a", "b", "c"), rng.choice((1, 2, 2, 3)))} for _ in range(rng.choice((1, 2, 2, 3, 4)))]


def addr(n, **extra):
    return {"street": f"{n} Main st.", "city": "Springfield", "zip": 10000 + n, **extra}


# structured inputs: sibling objects with the same keys (merged into one model whatever the policy), required / optional / differently
# typed fields on either side, literal sets around the documented limits, comma-containing strings
STRUCTURED = [
    [{"id": 1, "home": addr(1, floor=1.5), "work": addr(2, floor=7)}, {"id": 2, "home": addr(3, floor=2.5), "work": addr(4)}],
    [{"id": 1, "home": addr(1, floor=1), "work": addr(2, floor="x")}, {"id": 2, "home": addr(3), "work": addr(4, floor=None)}],
    [{"p": {"a": 1, "b": 2, "c": 3}, "q": [{"a": 1, "b": 2, "c": 3}, {"a": 1, "b": 2}]}],
    [{"p": {"a": 1, "b": "s", "c": [1]}, "q": {"a": 2.5, "b": None, "c": []}}],
    [{"tags": [f"t{i}" for i in range(15)]}, {"tags": ["t1", "t2"]}],
    [{"tags": ["t1", "t2"]}, {"tags": [f"t{i}" for i in range(15)]}, {"tags": ["t3"]}],
    [{"tags": [f"t{i}" for i in range(14)]}, {"tags": ["t14", "zz"]}],
    [{"s": "a"}, {"s": "b"}, {"s": "a,b"}],
    [{"s": "b,a"}, {"s": "a"}, {"s": "b"}],
    # sibling objects that are merged into one model in the second pass, with differently shaped unions on the two sides
    [{"first": {"id": 1, "x": [1]}, "second": {"id": 1, "x": []}}, {"first": {"id": 2, "x": [2]}, "second": {"id": 2, "x": "a string that is long enough"}},
     {"first": {"id": 3, "x": [3]}, "second": {"id": 3}}],
    [{"first": {"id": 1, "x": [1.5]}, "second": {"id": 1, "x": []}}, {"first": {"id": 2, "x": [2.5]}, "second": {"id": 2, "x": True}},
     {"first": {"id": 3, "x": [3.5]}, "second": {"id": 3, "x": None}}],
    [{"first": {"id": 1, "x": 1}, "second": {"id": 1, "x": "s"}}, {"first": {"id": 2, "x": 2.5}, "second": {"id": 2}}, {"first": {"id": 3, "x": 3}, "second": {"id": 3, "x": None}}],
    [{"owner": {"id": 1, "name": "n", "rank": 5}}, {"editors": [{"id": 2, "name": "m", "rank": "high"}, {"id": 3, "name": "k"}]}],
    [{"s": ["a,b"]}, {"s": ["a", "b"]}, {"s": 1}],
    [{"s": ["a", "b"]}, {"s": ["a,b"]}, {"s": None}],
    [{"s": "..."}, {"s": "x" * 25}],
    [{"v": [1, "1", None]}, {"v": [2.5]}, {"v": []}],
    [{"m": {"k1": {"z": 1}}, "n": {"k1": {"z": "s"}, "k2": None}}],
]


def jdump(x):
    return json.dumps(x, sort_keys=True, default=str)


def type_repr(t, follow=True, seen=None):
    """order-insensitive canonical rendering of an IR type (for set-like comparison, C07)"""
    seen = seen if seen is not None else set()
    if isinstance(t, ModelPtr):
        t = t.type
    if isinstance(t, ModelMeta):
        if not follow or id(t) in seen:
            return "Model"
        seen = seen | {id(t)}
        return "Model{" + ",".join(sorted(f"{k}:{type_repr(v, follow, seen)}" for k, v in t.type.items())) + "}"
    if isinstance(t, dict):
        return "{" + ",".join(sorted(f"{k}:{type_repr(v, follow, seen)}" for k, v in t.items())) + "}"
    if isinstance(t, DUnion):
        return "Union[" + ",".join(sorted(type_repr(m, follow, seen) for m in t.types)) + "]"
    if isinstance(t, DOptional):
        return "Optional[" + type_repr(t.type, follow, seen) + "]"
    if isinstance(t, DList):
        return "List[" + type_repr(t.type, follow, seen) + "]"
    if isinstance(t, DDict):
        return "Dict[" + type_repr(t.type, follow, seen) + "]"
    if isinstance(t, StringLiteral):
        return "Literal[" + ",".join(sorted(json.dumps(s) for s in t.literals)) + ("...]" if t.overflowed else "]")
    if t is Unknown:
        return "Any"
    if t is Null:
        return "None"
    return getattr(t, "__name__", str(t))


def shared_state_snapshot():
    """deep snapshot of the module/class-level mutable state a generation must not write (frame monitor, assumption S5/S6 audit)"""
    import copy
    from json_to_models.dynamic_typing import registry as default_registry
    from json_to_models.dynamic_typing.models_meta import AbsoluteModelRef
    snap = {}
    for name, g in GENERATORS.items():
        snap["style:" + name] = copy.deepcopy({getattr(k, "__name__", str(k)): v for k, v in g.default_types_style.items()})
    # every class-level container of every class of the package (by reflection: also ones a later change introduces)
    import importlib
    import pkgutil
    import inspect
    import json_to_models as _pkg
    mods = [_pkg]
    for mi in pkgutil.walk_packages(_pkg.__path__, _pkg.__name__ + "."):
        try:
            mods.append(importlib.import_module(mi.name))
        except Exception:
            pass
    seen_cls = set()

    def snap_class(c, prefix):
        if c in seen_cls:
            return
        seen_cls.add(c)
        for k, v in list(vars(c).items()):
            if k.startswith("__") or k in ("default_types_style", "_abc_impl"):
                continue
            if isinstance(v, (list, dict, set)):
                try:
                    snap[f"class:{prefix}{c.__name__}.{k}"] = repr(sorted(map(repr, v))) if isinstance(v, set) else repr(v)
                except Exception:
                    snap[f"class:{prefix}{c.__name__}.{k}"] = "<unrepresentable>"
            elif inspect.isclass(v) and getattr(v, "__module__", "").startswith("json_to_models"):
                snap_class(v, prefix + c.__name__ + ".")
    for m in mods:
        for k, v in list(vars(m).items()):
            if inspect.isclass(v) and getattr(v, "__module__", "") == m.__name__:
                snap_class(v, "")
    snap["registry.types"] = [t.__name__ for t in default_registry.types]
    snap["registry.replaces"] = sorted((a.__name__, b.__name__) for a, b in default_registry.replaces)
    snap["context"] = repr(getattr(AbsoluteModelRef.Context.data, "context", None))
    return snap
