"""Bounded stand-ins for the CLI properties C16, C17, C19 (function level: Cli.parse_args + Cli.run in-process with a patched
argv, temp dirs outside /repo and /verif; subprocess for exit status)."""
import ast
import contextlib
import io
import itertools
import json
import os
import random
import shutil
import subprocess
import sys
import tempfile

from . import bounded
from .common import GENERATORS, infer, jdump, render, ModelFieldsEquals, ModelFieldsNumberMatch, ModelFieldsPercentMatch
from .ir_props import run_cases, vid

HERE = os.path.dirname(os.path.dirname(os.path.abspath(__file__)))


def reset_default_registry():
    """the CLI mutates the module-global default registry (--datetime / --disable-str-serializable-types): restore it between runs"""
    from json_to_models.dynamic_typing import registry, IntString, FloatString, BooleanString
    registry.types[:] = [IntString, FloatString, BooleanString]
    registry.replaces.clear()
    registry.replaces.add((IntString, FloatString))


def run_cli(argv, cwd=None):
    """-> (stdout text or None, exception or None)"""
    from json_to_models.cli import Cli
    reset_default_registry()
    old_argv = sys.argv
    sys.argv = ["json2models"] + list(argv)
    old_cwd = os.getcwd()
    buf = io.StringIO()
    try:
        if cwd:
            os.chdir(cwd)
        with contextlib.redirect_stdout(buf), contextlib.redirect_stderr(io.StringIO()):
            cli = Cli()
            cli.parse_args(list(argv))
            out = cli.run()
        return out, None, buf.getvalue()
    except SystemExit as e:
        return None, e, buf.getvalue()
    except Exception as e:
        return None, e, buf.getvalue()
    finally:
        sys.argv = old_argv
        os.chdir(old_cwd)
        reset_default_registry()


def strip_header(text):
    assert text.startswith('r"""\n'), text[:40]
    end = text.index('\n"""\n', 4)
    return text[end + 5:]


@contextlib.contextmanager
def workdir():
    d = tempfile.mkdtemp(prefix="j2m_cli_")
    try:
        yield d
    finally:
        shutil.rmtree(d, ignore_errors=True)


# ------------------------------------------------------------------------------------------------ C16
C16_DOCS = [
    [{"id": 1, "name": "a", "tags": ["x"], "p": {"a": 1, "b": 2, "c": 3, "d": 4}, "q": {"a": 1, "x": 2, "y": 3, "z": 4}, "flag": "true", "num": "12"}, {"id": 2, "name": "b", "extra": None, "flag": "false", "num": "2.5"}],
    {"id": 3, "name": "c", "nested": {"k": 1.5},
     "u": {"s1": 1, "s2": 1, "s3": 1, "s4": 1, "s5": 1, "s6": 1, "s7": 1, "a1": 1},
     "v": {"s1": 1, "s2": 1, "s3": 1, "s4": 1, "s5": 1, "s6": 1, "s7": 1, "b1": 1, "b2": 1}},
    {"data": {"items": [{"id": 4, "s": "on"}, {"id": 5, "s": "off", "coupon": 7}]}},
    [{"id": 6, "when": "2018-12-31", "n": "12"}],
]


def library_text(samples, fw, layout, opts):
    merge = opts.get("merge")
    reg, gen, roots = infer(samples, merge=merge, dict_keys_fields=opts.get("dkf"), dict_keys_regex=[f"^{r}$" for r in opts.get("dkr", [])] or None,
                            str_registry=_library_registry(opts) if opts.get("default_registry") else None,
                            datetime=opts.get("datetime", False))
    kw = {"post_init_converters": opts.get("converters", False), "convert_unicode": True, "max_literals": opts.get("max_literals", 10)}
    kw.update(opts.get("gen_kwargs", {}))
    return render(reg, fw, layout, preamble=opts.get("preamble"), **kw)


def _library_registry(opts):
    """the default registry with the named pseudo-types removed (what --disable-str-serializable-types asks for)"""
    from json_to_models.dynamic_typing import registry as default_registry
    for nm in opts.get("disable", ()):
        default_registry.remove_by_name(nm)
    return default_registry


def oracle_c16(case):
    split, fw, layout, optname = case
    with workdir() as d:
        files = []
        for i, doc in enumerate(C16_DOCS):
            p = os.path.join(d, f"f{i}.json")
            json.dump(doc, open(p, "w"))
            files.append(p)
        argv = []
        samples = {}
        if split == "one_model_many_files":
            argv += ["-m", "Item", files[0], "-m", "Item", files[1], "-m", "Item", "data.items", files[2]]
            samples = {"Item": C16_DOCS[0] + [C16_DOCS[1]] + C16_DOCS[2]["data"]["items"]}
        elif split == "two_models":
            argv += ["-m", "Item", files[0], "-m", "Other", "data.items", files[2]]
            samples = {"Item": C16_DOCS[0], "Other": C16_DOCS[2]["data"]["items"]}
        elif split == "m_and_l":
            argv += ["-m", "Item", files[0], "-l", "Item", "data.items", files[2], "-l", "Cust", "-", files[1]]
            samples = {"Item": C16_DOCS[0] + C16_DOCS[2]["data"]["items"], "Cust": [C16_DOCS[1]]}
        elif split == "empty_pages":
            # paginated dumps: some files hold an empty list, null or nothing at the lookup path - they contribute no sample
            pages = [{"data": {"items": C16_DOCS[2]["data"]["items"]}}, {"data": {"items": []}}, {"data": {"items": [{"id": 9, "s": "x"}]}}]
            for i, pg in enumerate(pages):
                fp = os.path.join(d, f"page{i}.json")
                json.dump(pg, open(fp, "w"))
                argv += ["-m", "Item", "data.items", fp]
            samples = {"Item": pages[0]["data"]["items"] + pages[2]["data"]["items"]}
        elif split == "yaml_plain_scalars":
            # YAML 1.2 (what the loader is configured for): yes / no / on / off and 010 are a string and the integer ten
            docs = [{"enabled": "yes", "mode": "off", "n": 10, "name": "a"}, {"enabled": "no", "mode": "on", "n": 7, "name": "b"}]
            yp = os.path.join(d, "plain.yaml")
            open(yp, "w").write("- enabled: yes\n  mode: off\n  n: 010\n  name: a\n- enabled: no\n  mode: on\n  n: 7\n  name: b\n")
            argv += ["-m", "Item", yp, "-i", "yaml"]
            samples = {"Item": docs}
        elif split == "same_file_two_lookups":
            doc = {"current": {"id": 1, "name": "n", "price": 1}, "archive": {"items": [{"id": 2, "name": "m", "price": 2.5, "old": True}, {"id": 3, "name": "k"}]}}
            fp = os.path.join(d, "doc.json")
            json.dump(doc, open(fp, "w"))
            argv += ["-m", "Item", "current", fp, "-m", "Item", "archive.items", fp]
            samples = {"Item": [doc["current"]] + doc["archive"]["items"]}
        elif split == "bracket_name":
            # a literal file name with glob meta-characters in it; a decoy that the character class would match
            real = os.path.join(d, "export[1].json")
            json.dump(C16_DOCS[0], open(real, "w"))
            json.dump([{"decoy": True}], open(os.path.join(d, "export1.json"), "w"))
            sub2 = os.path.join(d, "run[3]")
            os.mkdir(sub2)
            json.dump(C16_DOCS[1], open(os.path.join(sub2, "x.json"), "w"))
            argv += ["-m", "Item", real, "-m", "Item", os.path.join(sub2, "x.json")]
            samples = {"Item": C16_DOCS[0] + [C16_DOCS[1]]}
        elif split == "pattern":
            sub = os.path.join(d, "one")
            os.mkdir(sub)
            json.dump(C16_DOCS[0], open(os.path.join(sub, "only.json"), "w"))
            argv += ["-m", "Item", os.path.join(sub, "*.json")]
            samples = {"Item": C16_DOCS[0]}
        opts = {"merge": [ModelFieldsPercentMatch(), ModelFieldsNumberMatch()]}
        if optname == "exact":
            argv += ["--merge", "exact"]
            opts["merge"] = [ModelFieldsEquals()]
        elif optname.startswith("merge:"):
            # thresholds around the overlaps present in the documents (p/q share 1 of 7 keys): the CLI's conversion of the policy text
            words = optname[6:].split()
            argv += ["--merge"] + words
            pol = []
            for w in words:
                kind, _, arg = w.partition("_")
                if kind == "exact":
                    pol.append(ModelFieldsEquals())
                elif kind == "percent":
                    pol.append(ModelFieldsPercentMatch(float(arg) / 100) if arg else ModelFieldsPercentMatch())
                else:
                    pol.append(ModelFieldsNumberMatch(int(arg)) if arg else ModelFieldsNumberMatch())
            opts["merge"] = pol
        elif optname.startswith("disable:"):
            names = optname[8:].split()
            argv += ["--disable-str-serializable-types"] + names
            opts["disable"] = names
        elif optname == "max0":
            argv += ["--max-strings-literals", "0"]
            opts["max_literals"] = 0
        elif optname == "max2":
            argv += ["--max-strings-literals", "2"]
            opts["max_literals"] = 2
        elif optname == "dkf":
            argv += ["--dkf", "nested"]
            opts["dkf"] = ["nested"]
        elif optname == "converters":
            argv += ["--strings-converters"]
            opts["converters"] = True
        elif optname == "preamble":
            argv += ["--preamble", "  X = 1  "]
            opts["preamble"] = "X = 1"
        elif optname.startswith("kwargs:"):
            # NAME=VALUE or "NAME=VALUE" (the quoted spelling of the help text reaching argv unstripped: no shell, nested quoting);
            # the generator gets the text of VALUE
            items = optname[7:].split(" ; ")
            argv += ["--code-generator-kwargs"] + items
            opts["gen_kwargs"] = {k_: {"true": True, "false": False}[v_] for k_, v_ in (i_.strip('"').split("=", 1) for i_ in items)}
        argv += ["-f", fw, "-s", layout]
        opts["default_registry"] = True
        out, exc, printed = run_cli(argv)
        if exc is not None:
            return f"CLI failed on {argv[-6:]}: {type(exc).__name__}: {exc}"
        reset_default_registry()
        try:
            lib = library_text(samples, fw, layout, opts)
        except Exception as e:
            return f"library pipeline failed where the CLI succeeded: {type(e).__name__}: {e}"
        finally:
            reset_default_registry()
        if strip_header(out) != lib:
            a, b = strip_header(out), lib
            i = next((k for k, (x, y) in enumerate(zip(a, b)) if x != y), min(len(a), len(b)))
            return f"CLI output differs from the library pipeline ({split}, {fw}, {layout}, {optname}) near {a[max(0, i - 60):i + 60]!r} vs {b[max(0, i - 60):i + 60]!r}"
        # -o stores exactly what would be printed (header timestamp aside)
        target = os.path.join(d, "out.py")
        out2, exc2, printed2 = run_cli(argv + ["-o", target])
        if exc2 is not None:
            return f"CLI with -o failed: {exc2}"
        written = open(target).read()
        if strip_header(written) != lib:
            return "file written with -o differs from the text that is printed"
        if "class " in (out2 or "") or "class " in printed2:
            return "model code printed although -o was given"
    return None


@bounded("C16", "cli_equals_library_pipeline")
def c16(tier, seed):
    splits = ["one_model_many_files", "two_models", "m_and_l", "pattern", "bracket_name", "empty_pages", "yaml_plain_scalars", "same_file_two_lookups"]
    opts = ["none", "exact", "max0", "max2", "dkf", "converters", "preamble", "merge:percent_1", "merge:percent_0.5", "merge:percent_15", "merge:percent_100 number_1", "merge:percent_70", "merge:percent_71", "merge:percent_69",
            "merge:number_2", "merge:number_1 exact", "merge:number_4 percent", "merge:percent_95 number", "disable:BooleanString", "disable:int FloatString"]
    fws = ["base", "pydantic", "attrs", "dataclasses"] if tier == "thorough" else ["pydantic", "dataclasses"]
    cases = [(s, fw, lay, o) for s in splits for fw in fws for lay in ("flat", "nested") for o in opts]
    cases += [("two_models", fw, "flat", o) for fw in ("attrs", "dataclasses")
              for o in ("kwargs:meta=true", 'kwargs:"meta=true"', 'kwargs:"meta=false"', "kwargs:meta=false")]
    r = run_cases(cases, oracle_c16, "c16")
    r["bound"] = f"8 ways of splitting 4 documents over files / lookups / -m / -l / a one-file pattern / literal names containing [ ] / paginated files with an empty page / a YAML file with 1.1-only plain scalars / one file read through two lookups x {len(fws)} frameworks x 2 layouts x 20 option sets (incl. merge thresholds around the overlaps present), plus 4 --code-generator-kwargs spellings (JS-style booleans, bare and quoted items) x 2 frameworks; stdout and -o both compared with the library pipeline"
    r["function"] = "Cli.parse_args + Cli.run (in-process)"
    return r


@bounded("C02", "cli_infers_from_exactly_the_objects_in_the_files")
def c02_cli(tier, seed):
    """tightness seen through the command line: a file that holds an empty list / nothing at the lookup path adds no (phantom) sample,
    so no field becomes Optional because of it - decided by comparing with the library run on exactly the objects in the files"""
    cases = [("empty_pages", fw, "flat", "none") for fw in ("pydantic", "dataclasses")] + [("m_and_l", "pydantic", "flat", "none")]
    r = run_cases(cases, oracle_c16, "c16")
    r["bound"] = "paginated lookup files with an empty page (2 frameworks) and a mixed -m/-l input: CLI output equals the library pipeline on exactly the objects present"
    r["function"] = "dict_lookup / iter_json_file / Cli.setup_models_data"
    return r


def oracle_cli_reuse(case):
    """one Cli object used for two command lines in a row: the second run gives what a fresh Cli gives for the second command line"""
    first_opts, second_opts = case
    from json_to_models.cli import Cli
    import contextlib
    import io
    with workdir() as d:
        p = os.path.join(d, "g.json")
        json.dump([{"n": "12", "l": ["1", "2"], "s": "abc", "c": {"k": "1.5"}}], open(p, "w"))
        base = ["-m", "Item", p]
        reset_default_registry()
        try:
            def run(cli, opts):
                with contextlib.redirect_stdout(io.StringIO()), contextlib.redirect_stderr(io.StringIO()):
                    cli.parse_args(base + list(opts))
                    return strip_header(cli.run())
            fresh = run(Cli(), second_opts)
            reset_default_registry()
            shared = Cli()
            run(shared, first_opts)
            reset_default_registry()
            again = run(shared, second_opts)
        finally:
            reset_default_registry()
        if again != fresh:
            a, b = again, fresh
            i = next((k for k, (x, y) in enumerate(zip(a, b)) if x != y), min(len(a), len(b)))
            return f"a Cli object that first ran {list(first_opts)} prints for {list(second_opts)} something else than a fresh Cli: near {a[max(0, i - 50):i + 50]!r} vs {b[max(0, i - 50):i + 50]!r}"
    return None


REUSE_CASES = [((), ("-f", "attrs", "--strings-converters")), (("-f", "attrs", "--strings-converters"), ("-f", "attrs")),
               (("-f", "dataclasses"), ("-f", "dataclasses", "--strings-converters")), (("--merge", "exact"), ("--merge", "percent_50")),
               (("--max-strings-literals", "0"), ()), (("--dkf", "c"), ()), (("-f", "pydantic", "--preamble", "X = 1"), ("-f", "pydantic")),
               (("-f", "dataclasses", "--code-generator-kwargs", "meta=true"), ("-f", "dataclasses"))]


@bounded("C16", "one_cli_object_two_command_lines")
def c16_reuse(tier, seed):
    r = run_cases(REUSE_CASES, oracle_cli_reuse, "cli_reuse")
    r["bound"] = f"{len(REUSE_CASES)} pairs of command lines run one after the other on the same Cli object, the second compared with a fresh Cli"
    r["function"] = "Cli.parse_args / set_args (state left on the object)"
    return r


@bounded("C18", "one_cli_object_two_command_lines")
def c18_reuse(tier, seed):
    r = run_cases(REUSE_CASES[:3], oracle_cli_reuse, "cli_reuse")
    r["bound"] = "3 pairs of command lines toggling --strings-converters on one Cli object"
    r["function"] = "Cli.set_args (generator kwargs)"
    return r


def oracle_c05_cli_policy(case):
    """the comparators a command line configures are the ones its --merge words name, each with its own argument or its own default"""
    words, = case
    from json_to_models.cli import Cli
    from json_to_models.registry import ModelFieldsEquals as E, ModelFieldsNumberMatch as N, ModelFieldsPercentMatch as P
    with workdir() as d:
        p = os.path.join(d, "g.json")
        json.dump([{"id": 1}], open(p, "w"))
        reset_default_registry()
        try:
            cli = Cli()
            cli.parse_args(["-m", "Item", p, "--merge"] + list(words))
        finally:
            reset_default_registry()
        got = [(type(c).__name__, getattr(c, "percent_fields", None), getattr(c, "number_fields", None)) for c in cli.merge_policy]
        want = []
        for w in words:
            kind, _, arg = w.partition("_")
            c = E() if kind == "exact" else ((P(float(arg) / 100) if arg else P()) if kind == "percent" else (N(int(arg)) if arg else N()))
            want.append((type(c).__name__, getattr(c, "percent_fields", None), getattr(c, "number_fields", None)))
        if got != want:
            return f"--merge {' '.join(words)} configured {got}, the words name {want}"
    return None


@bounded("C05", "merge_policy_words_to_comparators")
def c05_cli_policy(tier, seed):
    cases = [(w,) for w in [("percent",), ("number",), ("exact",), ("percent_50",), ("number_4", "percent"), ("percent_95", "number"), ("number_3", "exact", "percent"),
                            ("percent", "number_10"), ("exact", "number"), ("percent_1", "percent")]]
    r = run_cases(cases, oracle_c05_cli_policy, "c05_cli_policy")
    r["bound"] = "10 --merge word lists (bare words after words with an argument, repeated kinds) compared with the comparators the words name"
    r["function"] = "Cli.set_args (merge policy construction)"
    return r


# ------------------------------------------------------------------------------------------------ C13 through the command line
def oracle_c13_cli(case):
    """--dkf names reach the generator verbatim (a key may contain commas, spaces, dots); --dkr patterns are anchored one by one"""
    names, = case
    doc = {"lat,lng": {"a": 1, "b": 2}, "lat": {"c": 1}, "lng": {"d": 1}, "x y": {"e": 1}, "p.q": {"f": 1}, "plain": {"g": 1}}
    with workdir() as d:
        p = os.path.join(d, "g.json")
        json.dump([doc], open(p, "w"))
        out, exc, printed = run_cli(["-m", "Item", p, "-f", "pydantic", "--dkf"] + list(names))
        if exc is not None:
            return f"run failed: {type(exc).__name__}: {exc}"
        reset_default_registry()
        lib = library_text({"Item": [doc]}, "pydantic", "flat", {"dkf": list(names), "default_registry": True,
                                                                  "merge": [ModelFieldsPercentMatch(), ModelFieldsNumberMatch()]})
        if strip_header(out) != lib:
            return f"--dkf {list(names)}: CLI output differs from the library run with dict_keys_fields={list(names)}"
    return None


@bounded("C13", "dict_field_names_via_cli")
def c13_cli(tier, seed):
    r = run_cases([(("lat,lng",),), (("lat", "lng"),), (("x y", "p.q"),), (("plain", "lat,lng"),)], oracle_c13_cli, "c13_cli")
    r["bound"] = "4 --dkf name lists (names containing a comma, a space, a dot) on one object with 6 object-valued fields; CLI compared with the library"
    r["function"] = "Cli.parse_args / set_args -> MetadataGenerator(dict_keys_fields=...)"
    return r


# ------------------------------------------------------------------------------------------------ C09 through the command line
def oracle_c09_cli(case):
    """'disabled types never appear in output': every spelling the option's help documents (python type name or pseudo-type class
    name) removes that pseudo-type and only that one"""
    names = list(case)
    with workdir() as d:
        p = os.path.join(d, "g.json")
        json.dump([{"n": "12", "f": "1.5", "b": "true"}], open(p, "w"))
        out, exc, printed = run_cli(["-m", "Item", p, "-f", "attrs", "--disable-str-serializable-types"] + list(names))
        if exc is not None:
            return f"run failed: {type(exc).__name__}: {exc}"
        body = strip_header(out)
        expect = {"n": "IntString", "f": "FloatString", "b": "BooleanString"}
        alias = {"int": "IntString", "float": "FloatString", "bool": "BooleanString"}
        disabled = {alias.get(x, x) for x in names}
        for field, pseudo in expect.items():
            line = next((l for l in body.splitlines() if l.strip().startswith(field + ":")), "")
            has = pseudo in line
            if pseudo in disabled and has:
                return f"--disable-str-serializable-types {' '.join(names)}: {pseudo} still appears ({line.strip()})"
            if pseudo not in disabled and not has and not (pseudo == "IntString" and "FloatString" in disabled and False):
                return f"--disable-str-serializable-types {' '.join(names)}: {pseudo} disappeared although it was not disabled ({line.strip()})"
    return None


@bounded("C09", "disabled_types_via_cli")
def c09_cli(tier, seed):
    spellings = [("int",), ("float",), ("bool",), ("IntString",), ("FloatString",), ("BooleanString",), ("int", "BooleanString"), ("FloatString", "bool")]
    r = run_cases(spellings, oracle_c09_cli, "c09_cli")
    r["bound"] = "8 option values (python type names and pseudo-type class names, singly and in pairs) on one object with an int-, a float- and a bool-like string; attrs output"
    r["function"] = "Cli._create_argparser / Cli.parse_args / StringSerializableRegistry.remove_by_name"
    return r


# ------------------------------------------------------------------------------------------------ C10 through the command line
def oracle_c10_cli(case):
    """the configured literal limit reaches the generator unchanged: k distinct short strings give Literal[...] iff k < N (and k <= 15)"""
    k, n = case
    with workdir() as d:
        p = os.path.join(d, "g.json")
        json.dump([{"s": f"v{i:02d}"} for i in range(k)], open(p, "w"))
        out, exc, printed = run_cli(["-m", "Item", p, "-f", "pydantic", "--max-strings-literals", str(n)])
        if exc is not None:
            return f"run failed: {type(exc).__name__}: {exc}"
        line = next((l for l in strip_header(out).splitlines() if l.strip().startswith("s:")), "")
        is_lit = "Literal[" in line
        should = k < n and k <= 15
        if is_lit != should:
            return f"{k} distinct strings with --max-strings-literals {n}: {line.strip()!r} (Literal expected: {should})"
    return None


@bounded("C10", "literal_limit_via_cli")
def c10_cli(tier, seed):
    cases = [(k, n) for k in (1, 2, 9, 14, 15, 16) for n in (0, 1, 2, 10, 15, 16, 17, 100)]
    r = run_cases(cases, oracle_c10_cli, "c10_cli")
    r["bound"] = "1..16 distinct short strings x --max-strings-literals in {0,1,2,10,15,16,17,100}; pydantic output"
    r["function"] = "Cli.parse_args -> GenericModelCodeGenerator.__init__(max_literals) -> StringLiteral.to_typing_code"
    return r


# ------------------------------------------------------------------------------------------------ C18 through the command line
def oracle_c18_cli(case):
    """--strings-converters reaches the generator for attrs and dataclasses: models built from their own samples hold converted values"""
    fw, = case
    sample = {"n": "12", "l": ["1", "2"], "d": {"k": "1.5"}, "o": None}
    with workdir() as d:
        p = os.path.join(d, "g.json")
        json.dump([sample, {"n": "3", "l": [], "d": {"j": "2.5"}, "o": ["7"]}], open(p, "w"))
        out, exc, printed = run_cli(["-m", "Item", p, "-f", fw, "--strings-converters", "--dkf", "d"])
        if exc is not None:
            return f"run failed: {type(exc).__name__}: {exc}"
        ns = {"__name__": "j2m_c18_cli_" + fw}
        import types
        mod = types.ModuleType(ns["__name__"])
        sys.modules[ns["__name__"]] = mod
        try:
            exec(compile(strip_header(out), "<cli>", "exec"), mod.__dict__)
            obj = mod.Item(**sample)
        finally:
            sys.modules.pop(ns["__name__"], None)
        if type(obj.n).__name__ != "IntString":
            return f"{fw}: n holds {type(obj.n).__name__} {obj.n!r} after construction, annotated IntString"
        if [type(x).__name__ for x in obj.l] != ["IntString", "IntString"]:
            return f"{fw}: l holds {[type(x).__name__ for x in obj.l]}, annotated List[IntString]"
        if type(obj.d["k"]).__name__ != "FloatString":
            return f"{fw}: d['k'] holds {type(obj.d['k']).__name__}, annotated Dict[str, FloatString]"
    return None


@bounded("C18", "converters_via_cli")
def c18_cli(tier, seed):
    r = run_cases([("attrs",), ("dataclasses",)], oracle_c18_cli, "c18_cli")
    r["bound"] = "attrs and dataclasses output of the CLI with --strings-converters for one two-sample input (direct, list, dict and optional-list pseudo-typed fields), executed and constructed from its first sample"
    r["function"] = "Cli.MODEL_GENERATOR_MAPPING / Cli.set_args -> generator kwargs -> convert_strings"
    return r


# ------------------------------------------------------------------------------------------------ C17
FAULTS = ["missing_file", "bad_json", "wrong_lookup", "scalar_lookup", "falsy_scalar_lookup", "non_object_sample", "bad_merge", "bad_framework_combo",
          "generator_exception", "bad_yaml", "bad_ini", "missing_ini", "missing_yaml", "null_sample", "zero_sample", "false_sample", "empty_string_sample",
          "empty_list_sample", "string_sample", "looked_up_list_with_null", "missing_bracket_file", "missing_in_bracket_dir", "kwargs_item_without_equals", "kwargs_item_without_equals_attrs"]


def oracle_c17(case):
    fault, position, existing = case
    with workdir() as d:
        good = []
        for i in range(2):
            p = os.path.join(d, f"good{i}.json")
            json.dump([{"id": i, "name": "n"}], open(p, "w"))
            good.append(p)
        bad = os.path.join(d, "bad.json")
        extra = []
        fmt = []
        lookup = []
        if fault == "missing_file":
            bad = os.path.join(d, "nope.json")
        elif fault == "bad_json":
            open(bad, "w").write('{"a": [1, 2')
        elif fault == "wrong_lookup":
            json.dump({"data": {"x": [1]}}, open(bad, "w"))
            lookup = ["data.items"]
        elif fault == "scalar_lookup":
            json.dump({"total": 5000}, open(bad, "w"))
            lookup = ["total"]
        elif fault == "falsy_scalar_lookup":
            json.dump({"total": 0}, open(bad, "w"))
            lookup = ["total"]
        elif fault == "non_object_sample":
            json.dump([1, 2, 3], open(bad, "w"))
        elif fault in ("null_sample", "zero_sample", "false_sample", "empty_string_sample", "empty_list_sample", "string_sample"):
            # a non-object among the samples of a list file (falsy ones included): not a model, must fail
            v = {"null_sample": None, "zero_sample": 0, "false_sample": False, "empty_string_sample": "", "empty_list_sample": [], "string_sample": "abc"}[fault]
            json.dump([{"id": 7}, v, {"id": 8}], open(bad, "w"))
        elif fault == "looked_up_list_with_null":
            json.dump({"data": [{"id": 7}, None]}, open(bad, "w"))
            lookup = ["data"]
        elif fault in ("missing_ini", "missing_yaml"):
            ext = fault.split("_")[1]
            good = []
            for i in range(2):
                gp = os.path.join(d, f"good{i}.{ext}")
                open(gp, "w").write("[sec]\nkey = value\n" if ext == "ini" else "sec:\n  key: value\n")
                good.append(gp)
            bad = os.path.join(d, "nope." + ext)
            fmt = ["-i", ext]
        elif fault in ("kwargs_item_without_equals", "kwargs_item_without_equals_attrs"):
            json.dump([{"id": 9}], open(bad, "w"))
            extra = (["-f", "attrs"] if fault.endswith("attrs") else []) + ["--code-generator-kwargs", "meta" if fault.endswith("attrs") else "convert_unicode"]
        elif fault == "missing_bracket_file":
            bad = os.path.join(d, "page[2].json")
        elif fault == "missing_in_bracket_dir":
            os.mkdir(os.path.join(d, "run[3]"))
            bad = os.path.join(d, "run[3]", "x.json")
        elif fault == "bad_merge":
            json.dump([{"id": 9}], open(bad, "w"))
            extra = ["--merge", "nonsense_5"]
        elif fault == "bad_framework_combo":
            json.dump([{"id": 9}], open(bad, "w"))
            extra = ["--code-generator", "json_to_models.models.attr.AttrsModelCodeGenerator"]
        elif fault == "generator_exception":
            json.dump([{"id": 9}], open(bad, "w"))
            extra = ["--code-generator-kwargs", "bogus=1"]
        elif fault == "bad_yaml":
            bad = os.path.join(d, "bad.yaml")
            open(bad, "w").write("a: [1, 2\n b: {")
            fmt = ["-i", "yaml"]
            good = []
        elif fault == "bad_ini":
            bad = os.path.join(d, "bad.ini")
            open(bad, "w").write("no section header\nkey = value\n")
            fmt = ["-i", "ini"]
            good = []
        files = list(good)
        files.insert(min(position, len(files)), bad)
        argv = []
        for f in files:
            argv += ["-m", "Item"] + (lookup if f == bad else []) + [f]
        argv += fmt + extra
        target = os.path.join(d, "out.py")
        before = "# previous content\nX = 1\n"
        if existing:
            open(target, "w").write(before)
        out, exc, printed = run_cli(argv + ["-o", target])
        if exc is None:
            return f"fault {fault} (position {position}): the run succeeded and wrote/printed {str(out)[:60]!r}"
        if isinstance(exc, SystemExit) and exc.code in (0, None):
            return f"fault {fault}: exit status 0"
        if "class " in printed:
            return f"fault {fault}: model code was printed"
        if existing and open(target).read() != before:
            return f"fault {fault} (position {position}): the existing output file was modified"
        if not existing and os.path.exists(target) and open(target).read():
            return f"fault {fault}: a partial output file was created"
    return None


def oracle_c17_success(case):
    fw, = case
    with workdir() as d:
        p = os.path.join(d, "g.json")
        json.dump([{"id": 1, "child": {"k": "v"}}], open(p, "w"))
        target = os.path.join(d, "out.py")
        open(target, "w").write("old")
        out, exc, printed = run_cli(["-m", "Item", p, "-f", fw, "-o", target])
        if exc is not None:
            return f"successful run failed: {exc}"
        text = open(target).read()
        try:
            ast.parse(text)
        except SyntaxError as e:
            return f"written file is not complete python: {e}"
        if "class Item" not in text or "class Child" not in text:
            return "written file is incomplete"
        # exit status of the real command line for one failing and one good invocation
        repo = os.environ.get("VERIF_REPO", "/repo")
        env = dict(os.environ, PYTHONPATH=f"{repo}")
        ok = subprocess.run([sys.executable, "-m", "json_to_models", "-m", "Item", p], capture_output=True, text=True, env=env, cwd=d, timeout=120)
        if ok.returncode != 0 or "class Item" not in ok.stdout:
            return f"good command line exits {ok.returncode}"
        ko = subprocess.run([sys.executable, "-m", "json_to_models", "-m", "Item", os.path.join(d, "nope.json")], capture_output=True, text=True, env=env, cwd=d, timeout=120)
        if ko.returncode == 0 or "class " in ko.stdout:
            return f"failing command line exits {ko.returncode} and prints {ko.stdout[:40]!r}"
    return None


@bounded("C17", "faults_leave_output_untouched")
def c17(tier, seed):
    cases = [(f, pos, ex) for f in FAULTS for pos in (0, 1, 2) for ex in (True, False)]
    r = run_cases(cases, oracle_c17, "c17")
    r2 = run_cases([("base",), ("pydantic",)], oracle_c17_success, "c17_success")
    for k in ("evaluations", "distinct"):
        r[k] += r2[k]
    r["violations"] += r2["violations"]
    r["bound"] = f"{len(FAULTS)} fault kinds x position of the faulty file among 2 good ones x with/without existing -o file; successful runs write complete text; real exit status for one good and one failing command line"
    r["function"] = "Cli.parse_args + Cli.run (in-process), python -m json_to_models (subprocess)"
    return r


# ------------------------------------------------------------------------------------------------ C19
C19_ALPHA = ['"', '"""', "\\", "\n", "é", "'", "'''", "x", " ", '\\"', "\\\\", '""""']


def oracle_c19(case):
    extra_args, preamble, fw = case
    with workdir() as d:
        p = os.path.join(d, "g.json")
        json.dump([{"id": 1, "s": "abc", "child": {"k": [1]}}], open(p, "w"))
        argv = ["-m", "Item", p, "-f", fw]
        if preamble is not None:
            argv += ["--preamble", preamble]
        argv += ["--dkr"] + list(extra_args) if extra_args else []
        out, exc, printed = run_cli(argv)
        if exc is not None:
            if extra_args and "error" in type(exc).__name__.lower():
                return None      # an invalid regular expression is rejected before generation: not this property
            return f"run failed: {type(exc).__name__}: {exc}"
        try:
            tree = ast.parse(out)
        except SyntaxError as e:
            return f"output is not a valid module (argv {argv[3:]!r}): {e}"
        first = tree.body[0]
        if not (isinstance(first, ast.Expr) and isinstance(first.value, ast.Constant) and isinstance(first.value.value, str)):
            return "first statement is not the header string"
        if "command: " not in first.value.value:
            return "header does not carry the command line"
        body = strip_header(out)
        pre = (preamble or "").strip()
        if pre:
            if body.count(pre) != 1 and preamble.strip() not in ("x", "'", '"', " "):
                return f"preamble {pre!r} appears {body.count(pre)} times"
            idx = body.find(pre)
            imports_end = max([body.rfind(l) for l in body.splitlines() if l.startswith(("import ", "from ")) and l.strip() != pre] + [-1])
            first_class = body.find("class ")
            if idx < 0 or not (imports_end < idx < first_class):
                return f"preamble not placed after the imports and before the first class"
        else:
            ref, exc2, _ = run_cli(["-m", "Item", p, "-f", fw] + (["--dkr"] + list(extra_args) if extra_args else []))
            if exc2 is None and strip_header(ref) != body:
                return "an empty / blank preamble changed the output"
    return None


@bounded("C19", "header_and_preamble")
def c19(tier, seed):
    rng = random.Random(seed)
    cases = []
    for a in C19_ALPHA:
        cases.append(((), f"X = {a!r}" if a.strip() else a, "base"))
        cases.append(((a,) if a.strip() and "\n" not in a else (), None, "pydantic"))
    cases += [((), "", "base"), ((), "   \n ", "pydantic"), ((), None, "dataclasses"), ((), 'D = r"C:\\Users\\me"', "base"),
              ((r"\d+", r"\w\t"), "import os", "attrs")]
    # arguments with inner whitespace whose ends are (double) quotes; long runs of blank lines; text that is verbatim-sensitive
    cases += [((), 'EMPTY = ""', "base"), ((), '"" or print("")', "pydantic"), ((), 'A = "x y"', "attrs"), ((), '"""Doc string."""', "base"),
              ((), 'BANNER = """top\n\n\n\n\nbottom"""', "base"), ((), "X = 1\n\n\n\n\n\nY = 2", "pydantic"), ((), "# c\t tab\r\nZ = 3", "base"),
              (('k ""', '"" k'), None, "base"), (('some key ""',), 'P = ""', "pydantic")]
    # typographic / full-width quotes (three in a row, one between two ASCII quotes), characters str.splitlines treats as line ends
    cases += [((), 'T = "\u201c\u201c\u201c"', "base"), (("k\u201c\u201d\u201c",), None, "pydantic"), (('"\u201c"',), 'Q = "\uff02\uff02\uff02 \u00a8"', "base"),
              ((), 'U = "a\u2028b"', "base"), ((), 'V = "a\u0085b"  # c\u2029d', "pydantic"), ((), "W = 'x\x0cy'\nZ = 2", "attrs"), ((), 'S = "\x1c\x1d\x1e"', "base")]
    for _ in range(40 if tier == "quick" else 800):
        s = "".join(rng.choice(C19_ALPHA) for _ in range(rng.randint(1, 5)))
        cases.append(((), "Y = " + repr(s), rng.choice(["base", "pydantic", "attrs", "dataclasses"])))
        cases.append((("k" + s.replace("\n", ""),) if "\n" not in s else (), None, "base"))
    r = run_cases(cases, oracle_c19, "c19")
    r["bound"] = "argv strings / preamble texts over quote, triple-quote, backslash, newline, non-ASCII (12 atoms; seeded concatenations of 1-5) x 4 frameworks; module parses, first statement is the header, preamble once between imports and first class, blank preamble is a no-op"
    r["function"] = "Cli.version_string / Cli.set_args / generate_code"
    return r


ORACLES = {"c05_cli_policy": lambda c: oracle_c05_cli_policy((tuple(c[0]),)), "cli_reuse": lambda c: oracle_cli_reuse((tuple(c[0]), tuple(c[1]))), "c13_cli": lambda c: oracle_c13_cli((tuple(c[0]),)), "c18_cli": lambda c: oracle_c18_cli(tuple(c)), "c10_cli": lambda c: oracle_c10_cli(tuple(c)), "c09_cli": lambda c: oracle_c09_cli(tuple(c)), "c16": lambda c: oracle_c16(tuple(c)), "c17": lambda c: oracle_c17(tuple(c)), "c17_success": lambda c: oracle_c17_success(tuple(c)),
           "c19": lambda c: oracle_c19((tuple(c[0]), c[1], c[2]))}


def replay(w):
    msg = ORACLES[w["replay"]["oracle"]](w["input"])
    print("replay:", "violated: " + msg if msg else "held")
    return 1 if msg else 0
