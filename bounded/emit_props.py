"""Bounded stand-ins for the emission-level properties C03, C04, C10, C11, C12, C18 (+ the pydantic half of C01)."""
import ast
import itertools
import json
import keyword
import random
import sys
import types as pytypes
import typing

from . import bounded
from .common import (GENERATORS, VALUES, DDict, DList, DOptional, DUnion, ModelMeta, ModelPtr, Null, StringLiteral, Unknown,
                     infer, jdump, objects, render, sample_lists, type_repr, ModelFieldsEquals)
from .ir_props import run_cases, vid
from specs.ir import inh, is_pseudo, strip_opt

FRAMEWORKS = ["base", "pydantic", "sqlmodel", "attrs", "dataclasses"]


def install_sqlmodel_stub():
    if "sqlmodel" in sys.modules:
        return
    m = pytypes.ModuleType("sqlmodel")

    class SQLModel:
        def __init_subclass__(cls, **kw):
            pass

    def Field(*a, **kw):
        return a[0] if a else kw.get("default")
    m.SQLModel, m.Field = SQLModel, Field
    sys.modules["sqlmodel"] = m


_mod_counter = itertools.count()


def load(code):
    install_sqlmodel_stub()
    name = f"generated_module_{next(_mod_counter)}"
    mod = pytypes.ModuleType(name)
    sys.modules[name] = mod          # dataclasses / typing resolve annotations through sys.modules[cls.__module__]
    try:
        exec(compile(code, "<generated>", "exec"), mod.__dict__)
    finally:
        sys.modules.pop(name, None)
    sys.modules[name] = mod
    _loaded.append(name)
    if len(_loaded) > 50:
        sys.modules.pop(_loaded.pop(0), None)
    return mod.__dict__


_loaded = []


def classes_of(tree_or_code):
    tree = ast.parse(tree_or_code) if isinstance(tree_or_code, str) else tree_or_code
    out = []

    def walk(body, prefix):
        for n in body:
            if isinstance(n, ast.ClassDef):
                out.append((prefix + n.name, n))
                walk(n.body, prefix + n.name + ".")
    walk(tree.body, "")
    return out


def fields_of(cls_node):
    out = []
    for n in cls_node.body:
        if isinstance(n, ast.AnnAssign) and isinstance(n.target, ast.Name):
            out.append((n.target.id, ast.unparse(n.annotation), ast.unparse(n.value) if n.value is not None else None))
    return out


# ------------------------------------------------------------------------------------------------ C03
KEY_STYLES = ["snake_case", "camelCase", "kebab-case", "PascalCase", "in2digit", "class", "list", "Optional", "id", "straße", "naïve", "date"]


def c03_cases(tier, seed):
    rng = random.Random(seed)
    base = [
        [{"snake_case": 1, "camelCase": "x"}],
        [{"kebab-case": [1], "PascalCase": {"in2digit": 1}}],
        [{"class": 1, "list": [{"Optional": "a"}], "id": 2}],
        [{"straße": {"naïve": 1.5}, "date": "x"}],
        [{"a": {"b": {"c": 1}}, "d": [{"b": {"c": 2}}]}],
        [{"a": {"x": 1, "y": 2}, "b": {"x": 1, "y": 2}}, {"a": {"x": 1}}],
        [{"none": {"k": 1}, "true": {"k2": 2}}],
        [{"item": {"k": 1}, "items": [{"k": 1, "z": None}]}],
        [{"none": {"k": 1}, "true": {"k2": "a"}, "exception": {"k3": 1.5}, "warnings": [{"k4": 1}]}],
        [{"list": {"k": 1}, "dict": {"k2": 1}, "optional": {"k3": 2}, "any": {"k4": 1}}],
    ]
    for s in base:
        yield s
    n = 40 if tier == "quick" else 600
    for _ in range(n):
        ks = rng.sample(KEY_STYLES, 3)
        yield [{ks[0]: rng.choice(VALUES), ks[1]: {ks[2]: rng.choice(VALUES)}}, {ks[0]: rng.choice(VALUES)}]


def oracle_c03(case):
    samples, fw, layout, opts = case
    if isinstance(samples, dict):
        reg, gen, roots = infer(samples, **({"merge": [ModelFieldsEquals()]} if len(str(samples)) > 3000 else {}))
    else:
        reg, gen, roots = infer({"Root": samples})
    try:
        code = render(reg, fw, layout, **opts)
    except Exception as e:
        if layout == "nested" and not is_tree(reg):
            return None
        raise
    tree = ast.parse(code)
    ns = load(code)
    cls = classes_of(tree)
    if len(cls) != len(reg.models_map):
        return f"{len(cls)} classes emitted for {len(reg.models_map)} models ({[c for c, _ in cls]})"
    for qual, node in cls:
        names = [f for f, _, _ in fields_of(node)]
        for f in names:
            if not f.isidentifier() or keyword.iskeyword(f):
                return f"field name {f!r} of {qual} is not a valid non-keyword identifier"
        if len(set(names)) != len(names):
            return f"duplicate field names in {qual}: {names}"
        short = qual.split(".")[-1]
        if not short.isidentifier() or keyword.iskeyword(short):
            return f"class name {short!r} invalid"
    tops = [c for c, _ in cls if "." not in c]
    if len(set(tops)) != len(tops):
        return f"duplicate top-level class names {tops}"
    imported = {a.asname or a.name for n in tree.body if isinstance(n, (ast.Import, ast.ImportFrom)) for a in n.names}
    for c, _ in cls:
        if c.split(".")[-1] in imported:
            return f"class {c} shadows an imported name"
    # every annotation evaluates in its scope
    for qual, node in cls:
        obj = ns
        scope = dict(ns)
        cur = None
        for part in qual.split("."):
            cur = (cur.__dict__ if cur is not None else ns)[part]
            scope.update({k: v for k, v in vars(cur).items() if isinstance(v, type)})
        for f, ann, _ in fields_of(node):
            try:
                val = eval(ann, scope)
                if isinstance(val, str):
                    val = eval(val, scope)
                typing.get_origin(val)
                for arg in _forward_strings(ann):
                    eval(arg, scope)
            except Exception as e:
                return f"annotation {ann!r} of {qual}.{f} does not evaluate: {type(e).__name__}: {e}"
    return None


def _forward_strings(ann):
    out = []
    tree = ast.parse(ann, mode="eval")
    skip = set()
    for n in ast.walk(tree):
        if isinstance(n, ast.Subscript) and isinstance(n.value, ast.Name) and n.value.id == "Literal":
            skip |= {id(x) for x in ast.walk(n.slice)}
    for n in ast.walk(tree):
        if id(n) not in skip and isinstance(n, ast.Constant) and isinstance(n.value, str) and n.value.replace(".", "").isidentifier():
            out.append(n.value)
    return out


def is_tree(reg):
    for m in reg.models:
        parented = [p for p in m.pointers if p.parent is not None]
        if len({id(p.parent) for p in parented}) > 1 or len(parented) > 1:
            return False
    return True


@bounded("C03", "emitted_module_loadable")
def c03(tier, seed):
    cases = []
    for samples in c03_cases(tier, seed):
        for fw in FRAMEWORKS:
            for layout in ("flat", "nested"):
                opts = [{}]
                if fw in ("attrs", "dataclasses"):
                    opts = [{}, {"meta": True, "post_init_converters": True}]
                for o in opts:
                    cases.append((samples, fw, layout, o))
                cases.append((samples, fw, layout, {"convert_unicode": False}))
    # several named root data sets whose explicit names clash with generated names of nested models
    multi = [{"Order": [{"items": [{"sku": 1}], "customer": {"n": "x"}}], "Item": [{"colour": "red", "w": 1.5}]},
             {"Root": [{"child": {"a": 1}}], "Child": [{"b": "s"}], "Other": [{"child": {"c": None}}]}]
    for m in multi:
        for fw in FRAMEWORKS:
            cases.append((m, fw, "flat", {}))
    # deep trees where only an earlier sibling's subtree needs an import (nested layout must still import it)
    for t_ in ([{"first": {"inner": {"xs": [1, 2], "o": None, "m": {"k": 1}}}, "second": {"n": 1}, "third": {"t": {"z": 1.5}}}],
               [{"r": {"first": {"inner": {"xs": [1.5], "lit": "a"}}, "last": {"n": 1, "deep": {"d": 1}}}}],
               [{"list": {"item": {"deep": {"x": [1]}}}, "user info": {"a": {"b": {"c": None, "c2": 1}}}, "warnings": {"w": {"v": {"u": 2}}}}]):
        for fw in FRAMEWORKS:
            cases.append((t_, fw, "nested", {}))
    # many models with the same generated name (more than one alphabet of model indexes), kept apart by the exact-match policy
    many = {"Root": [{f"g{i:02d}": {"item": {f"f{i}": i}, f"own{i}": 1} for i in range(45)}]}
    cases.append((many, "pydantic", "flat", {}))
    cases.append((many, "dataclasses", "flat", {}))
    r = run_cases(cases, oracle_c03, "c03")
    r["bound"] = "one 91-model input with 45 equally named models + 8 structured + seeded key-style inputs (12 realistic key styles incl. keywords/builtins/non-ASCII) x 5 frameworks x 2 layouts x converter/metadata/unicode options; compile+exec with a sqlmodel stub"
    r["function"] = "generate_code / compose_models(_flat) / prepare_label / fix_name_duplicates"
    return r


# ------------------------------------------------------------------------------------------------ C04 / C11 / C01(pydantic)
def expected_annotation(t, fw, max_literals=10):
    """independent rendering of an IR type (C04's wording)"""
    if isinstance(t, ModelPtr):
        return repr(t.type.name)
    if isinstance(t, DOptional):
        return f"Optional[{expected_annotation(t.type, fw, max_literals)}]"
    if isinstance(t, DList):
        return f"List[{expected_annotation(t.type, fw, max_literals)}]"
    if isinstance(t, DDict):
        return f"Dict[str, {expected_annotation(t.type, fw, max_literals)}]"
    if isinstance(t, DUnion):
        return "Union[" + ", ".join(expected_annotation(m, fw, max_literals) for m in t.types) + "]"
    if isinstance(t, StringLiteral):
        if fw == "attrs" or max_literals == 0 or len(t.literals) >= max_literals:
            return "str"
        return "Literal[" + ", ".join(json.dumps(s, ensure_ascii=False) for s in sorted(t.literals)) + "]"
    if t is Unknown:
        return "Any"
    if t is Null:
        return "None"
    if is_pseudo(t):
        return t.actual_type.__name__ if fw in ("pydantic", "sqlmodel") else t.__name__
    return t.__name__


def oracle_c04(case):
    samples, fw, layout = case
    reg, gen, roots = infer({"Root": samples}, merge=[ModelFieldsEquals()])
    if layout == "nested" and not is_tree(reg):
        return None
    code = render(reg, fw, layout, **({"meta": True} if fw in ("attrs", "dataclasses") else {}))
    cls = dict((q.split(".")[-1], n) for q, n in classes_of(code))
    ns = load(code)
    for m in reg.models:
        node = cls.get(m.name)
        if node is None:
            return f"no class emitted for model {m.name}"
        emitted = {f: (a, d) for f, a, d in fields_of(node)}
        for key, t in m.type.items():
            if fw in ("pydantic", "sqlmodel") and (t is Unknown or t is Null):
                continue
            hits = [f for f in emitted if f.rstrip("_").replace("_", "").lower() == "".join(ch for ch in key if ch.isalnum()).lower()]
            if not hits:
                return f"model {m.name}: key {key!r} has no field among {list(emitted)}"
            f = hits[0]
            # "the Python name is the sanitised key": with the default naming options a field name is snake case - never an upper-case
            # letter, a space or a hyphen, whatever the key looked like
            if any(ch.isupper() or ch in " -" for ch in f):
                return f"model {m.name}: key {key!r} became field {f!r}, which is not a sanitised (snake-case) name"
            ann, default = emitted[f]
            exp = expected_annotation(t, fw)
            if ast.dump(ast.parse(ann, mode="eval")) != ast.dump(ast.parse(exp, mode="eval")):
                return f"model {m.name}.{f}: annotation {ann} but the inferred type denotes {exp}"
            optional = isinstance(t, DOptional)
            if fw == "base":
                continue        # the base generator emits annotations only (no framework, no defaults, no key metadata)
            if (default is not None and not _is_required_marker(default)) != optional:
                return f"model {m.name}.{f}: default {default!r} but optional={optional}"
            if optional:
                inner = t.type
                want = "list" if isinstance(inner, DList) else ("dict" if isinstance(inner, DDict) else "None")
                if not _default_matches(default, want):
                    return f"model {m.name}.{f}: default {default!r}, expected an empty {want}" if want != "None" else f"model {m.name}.{f}: default {default!r}, expected None"
            if f != key:
                if fw in ("pydantic", "sqlmodel", "attrs", "dataclasses") and not _key_recoverable(default, key):
                    return f"model {m.name}.{f}: original key {key!r} not recoverable from {default!r}"
    # pydantic: every sample parses with the root class (C01)
    if fw == "pydantic" and "[None]" not in code and ", None]" not in code:
        # (pydantic.v1 itself mishandles Optional[List[None]] / Dict[str, None]: external validator quirk, excluded)
        _update_forward_refs(ns)
        root = ns[roots["Root"].type.name]
        for s in samples:
            try:
                root.parse_obj(s)
            except Exception as e:
                return f"pydantic root class rejects sample {jdump(s)[:80]}: {str(e)[:160]}"
    return None


def _update_forward_refs(ns):
    import pydantic.v1 as pyd

    def walk(container, localns):
        for v in list(container.values()):
            if isinstance(v, type) and issubclass(v, pyd.BaseModel) and v is not pyd.BaseModel and v.__module__.startswith("generated_module"):
                inner = dict(localns)
                inner.update({k: x for k, x in vars(v).items() if isinstance(x, type)})
                walk({k: x for k, x in vars(v).items() if isinstance(x, type)}, inner)
                v.update_forward_refs(**inner)
    walk(ns, dict(ns))


def _is_required_marker(d):
    return d.startswith("Field(...") or (d.startswith("attr.ib(") and "default" not in d and "factory" not in d) or \
        (d.startswith("field(") and "default" not in d)


def _default_matches(d, want):
    if want == "None":
        return d == "None" or "default=None" in d or d.startswith("Field(None")
    if want == "list":
        return d == "[]" or "factory=list" in d or d.startswith("Field([]")
    return d == "{}" or "factory=dict" in d or d.startswith("Field({}")


def _key_recoverable(default, key):
    if default is None:
        return False
    try:
        call = ast.parse(default, mode="eval").body
    except SyntaxError:
        return False
    for n in ast.walk(call):
        if isinstance(n, ast.keyword) and n.arg == "alias":
            return ast.literal_eval(n.value) == key
        if isinstance(n, ast.keyword) and n.arg == "metadata":
            return list(ast.literal_eval(n.value).values()) == [key]
    return False


C04_KEYS = ["a", "b-c", "dE", "class", "x y"]


def c04_cases(tier, seed):
    rng = random.Random(seed)
    vals = VALUES
    # a model whose name equals one of its own keys (name and field-name conversion are cached on one generator object);
    # Root itself with a key "Root"; an optional renamed scalar (metadata must survive a default)
    yield [{"Response": {"Response": "ok", "Code": 200}}]
    yield [{"Root": 1, "other": 2}]
    yield [{"Item": {"Item": {"Item": 1}}}]
    yield [{"User Name": 1, "back\\slash": 2.5, "from": "x"}, {}]
    for v in vals:
        yield [{"a": v}]
        yield [{"b-c": v}, {}]
    n = 150 if tier == "quick" else 6000
    for _ in range(n):
        ks = rng.sample(C04_KEYS, 2)
        yield [{ks[0]: rng.choice(vals), ks[1]: rng.choice(vals)}, {ks[0]: rng.choice(vals)}]


@bounded("C04", "field_by_field_against_independent_rendering")
def c04(tier, seed):
    cases = [(s, fw, layout) for s in c04_cases(tier, seed) for fw in FRAMEWORKS for layout in ("flat", "nested")]
    r = run_cases(cases, oracle_c04, "c04")
    r["bound"] = "21 value shapes under plain / renamed keys + seeded two-key pairs x 5 frameworks x 2 layouts; annotation AST, default kind and key recoverability compared with an independent rendering; pydantic root parses every sample"
    r["function"] = "field_data x5 / to_typing_code family / generate_code"
    return r


@bounded("C01", "pydantic_accepts_samples")
def c01_pydantic(tier, seed):
    cases = [(s, "pydantic", "flat") for s in itertools.islice(sample_lists(tier, seed), 0, 700 if tier == "quick" else 30000)]
    r = run_cases(cases, oracle_c04, "c04")
    r["bound"] = "first 700 (quick) / 30000 (thorough) sample lists of the C01 domain rendered with pydantic, exec'd, every sample parsed with the root class"
    r["function"] = "whole pipeline + pydantic.v1 parse_obj (external)"
    return r


def oracle_two_generators(case):
    """literal limits are per generator object: two generators of one class that are alive at the same time each render with their own
    limit, whatever the order in which they were constructed and rendered"""
    fw, la, lb, order = case
    from .common import GENERATORS
    reg, gen, roots = infer({"Root": [{"s": "asc"}, {"s": "desc"}, {"s": "q\"uote"}]})
    model = roots["Root"].type
    cls = GENERATORS[fw]
    ga = cls(model, max_literals=la)
    gb = cls(model, max_literals=lb)
    outs = {}
    for name, g in ((("a", ga), ("b", gb)) if order == "ab" else (("b", gb), ("a", ga))):
        outs[name] = g.generate()[1]
    for name, lim in (("a", la), ("b", lb)):
        want = 3 < lim and fw != "attrs"
        if ("Literal[" in outs[name]) != want:
            return f"{fw}: generator built with max_literals={lim} (other one: {lb if name == 'a' else la}, render order {order}) emitted {'a Literal' if 'Literal[' in outs[name] else 'str'} for 3 observed strings"
    return None


@bounded("C02", "literal_limit_is_per_generator")
def c02_two_generators(tier, seed):
    cases = [(fw, la, lb, o) for fw in ("base", "pydantic", "dataclasses", "attrs", "sqlmodel") for la, lb in ((10, 0), (0, 10), (2, 10), (10, 2), (4, 3)) for o in ("ab", "ba")]
    r = run_cases(cases, oracle_two_generators, "two_generators")
    r["bound"] = "5 frameworks x 5 pairs of limits x 2 render orders, two generator objects alive at once, 3 observed strings"
    r["function"] = "GenericModelCodeGenerator.__init__ (per-object options) / StringLiteral.to_typing_code"
    return r


@bounded("C10", "literal_limit_is_per_generator")
def c10_two_generators(tier, seed):
    return c02_two_generators(tier, seed)


# ------------------------------------------------------------------------------------------------ C10
ALPHA = ["a", "b", '"', "\\", "\n", ",", "é", "😀", "'"]


def c10_cases(tier, seed):
    rng = random.Random(seed)
    yield (["a", "b", "a,b"], 10)
    yield (["b,a", "b", "a"], 10)
    yield (["...", "x" * 25], 10)
    yield (["p,q", "p", "q", "p,q,r", "r"], 10)
    for ch in ALPHA:
        yield ([ch, ch + "x"], 10)
    for n in (1, 9, 10, 11, 14, 15, 16, 17):
        yield ([f"s{i}" for i in range(n)], 10)
        yield ([f"s{i}" for i in range(n)], 16)
        yield ([f"s{i}" for i in range(n)], 0)
    for ln in (18, 19, 20, 21):
        yield (["x" * ln, "y"], 10)
    for mx in range(0, 17):
        yield (["p", "q", "r"], mx)
    for _ in range(60 if tier == "quick" else 1500):
        k = rng.randint(1, 17)
        strs = list({"".join(rng.choice(ALPHA) for _ in range(rng.choice((1, 2, 3, 19, 20)))) for _ in range(k)})
        yield (strs, rng.randint(0, 16))


def oracle_c10(case):
    strs, mx, fw = case
    strs = [s for s in strs if not _looks_pseudo(s)]
    if not strs:
        return None
    samples = [{"f": s} for s in strs]
    from .common import shared_state_snapshot
    before = shared_state_snapshot()
    reg, gen, roots = infer({"Root": samples})
    code = render(reg, fw, "flat", max_literals=mx)
    if shared_state_snapshot() != before:
        return f"rendering with max_literals={mx} ({fw}) wrote class-level / module-level state"
    node = dict((q, n) for q, n in classes_of(code))["Root"]
    ann = [a for f, a, d in fields_of(node) if f == "f"][0]
    distinct = set(strs)
    should = all(len(s) < 20 for s in distinct) and len(distinct) <= 15 and len(distinct) < mx and fw != "attrs"
    is_lit = ann.startswith("Literal[")
    if is_lit != should:
        return f"{len(distinct)} distinct strings (max len {max(map(len, distinct))}), max_literals={mx}, {fw}: annotation {ann[:60]}"
    if is_lit:
        ns = load(code)
        got = set(typing.get_args(eval(ann, ns)))
        if got != distinct:
            return f"Literal evaluates to {sorted(got)!r}, observed {sorted(distinct)!r}"
    return None


def _looks_pseudo(s):
    from .common import fresh_registry
    for t in fresh_registry():
        try:
            t.to_internal_value(s)
            return True
        except ValueError:
            pass
    return False


@bounded("C10", "literal_limits_and_exact_values")
def c10(tier, seed):
    cases = [(s, mx, fw) for s, mx in c10_cases(tier, seed) for fw in ("base", "pydantic", "attrs", "dataclasses")]
    r = run_cases(cases, oracle_c10, "c10")
    r["bound"] = "string sets of 1..17 over an alphabet with quote, backslash, newline, comma, non-ASCII, non-BMP; lengths 18-21; max-literals 0..16; 4 frameworks"
    r["function"] = "StringLiteral.__init__/to_typing_code, DUnion.__init__, generators' __init__"
    return r


# ------------------------------------------------------------------------------------------------ C11
C11_KEYS = ["userId", "user_name", "last-login", "class", "list", "Type", "a\"b", "a\\b", "naïve", "straße", "x1y", "über-cool", "ключ1a", "k'q",
            "cafe\u0301", "\u212bngstrom", "ohm\u2126", " lead", "trail ", "tab\there"]


def oracle_c11(case):
    keys, fw, unicode_ = case
    sample = {k: i for i, k in enumerate(keys)}
    reg, gen, roots = infer({"Root": [sample]})
    opts = {"convert_unicode": unicode_}
    if fw in ("attrs", "dataclasses"):
        opts["meta"] = True
    code = render(reg, fw, "flat", **opts)
    node = dict(classes_of(code))["Root"]
    fl = fields_of(node)
    names = [f for f, _, _ in fl]
    if len(set(names)) != len(keys):
        return f"keys {keys} gave field names {names}"
    ns = load(code)
    if fw == "pydantic":
        _update_forward_refs(ns)
        obj = ns["Root"].parse_obj(sample)
        back = obj.dict(by_alias=True)
        if back != sample:
            return f"round trip through aliases gives {back}"
    for f, a, d in fl:
        pass
    recovered = set()
    for f, a, d in fl:
        if f in sample:
            recovered.add(f)
        else:
            for k in keys:
                if _key_recoverable(d, k):
                    recovered.add(k)
    if recovered != set(keys):
        return f"keys not recoverable: {sorted(set(keys) - recovered)} (fields {fl})"
    return None


import builtins as _builtins


def oracle_c11_classes(case):
    keys, fw, unicode_ = case
    sample = {k: {f"f{i}": i} for i, k in enumerate(keys)}
    reg, gen, roots = infer({"Root": [sample]}, merge=[ModelFieldsEquals()])
    code = render(reg, fw, "flat", convert_unicode=unicode_)
    tree = ast.parse(code)
    names = [c for c, _ in classes_of(tree)]
    imported = {a.asname or a.name for n in tree.body if isinstance(n, (ast.Import, ast.ImportFrom)) for a in n.names}
    for n in names:
        if not n.isidentifier() or keyword.iskeyword(n):
            return f"class name {n!r} (from keys {keys}) is not a valid non-keyword identifier"
        if n in imported or hasattr(_builtins, n):
            return f"class name {n!r} (from keys {keys}) collides with an imported / builtin name"
    if len(set(names)) != len(names):
        return f"class names not distinct: {names}"
    load(code)
    return None


CLASS_KEYS = ["none", "true", "exception", "warnings", "list", "dict", "type", "user", "userData", "straße", "any", "optional", "field", "lists"]


@bounded("C11", "class_names_from_keys")
def c11_classes(tier, seed):
    cases = [([k], fw, u) for k in CLASS_KEYS for fw in ("pydantic", "dataclasses") for u in (True, False)]
    cases += [(list(c), "pydantic", True) for c in itertools.combinations(CLASS_KEYS, 2)][: (40 if tier == "quick" else 10 ** 6)]
    r = run_cases(cases, oracle_c11_classes, "c11_classes")
    r["bound"] = "14 keys whose singular CamelCase form is a keyword / builtin / typing / imported name or an ordinary word, object-valued (so they name classes), singles and pairs x 2 frameworks x unicode on/off"
    r["function"] = "prepare_label / convert_class_name / generate_name / fix_name_duplicates"
    return r


def fold(k):
    return "".join(ch for ch in k.lower() if ch.isalnum())


@bounded("C11", "distinct_recoverable_fields")
def c11(tier, seed):
    rng = random.Random(seed)
    cases = []
    combos = list(itertools.combinations(C11_KEYS, 2)) + [tuple(rng.sample(C11_KEYS, 4)) for _ in range(30 if tier == "quick" else 500)]
    for keys in combos:
        if len({fold(k) for k in keys}) != len(keys):
            continue
        for fw in ("pydantic", "attrs", "dataclasses"):
            for u in (True, False):
                cases.append((list(keys), fw, u))
    r = run_cases(cases, oracle_c11, "c11")
    r["bound"] = "14 key texts (camel, snake, kebab, keyword, builtin, quote, backslash, non-ASCII cased letters), all pairs + seeded 4-sets pairwise distinct after folding x 3 frameworks x unicode on/off"
    r["function"] = "prepare_label / convert_field_name / _get_field_kwargs / field_data (metadata)"
    return r


SEPARATORS = ["\u2028", "\u2029", "\u0085", "\x0b", "\x0c", "\x1c", "\x1d", "\x1e"]


def oracle_c11_separators(case):
    """keys and short string values containing characters that str.splitlines treats as line ends, in models that the nested layout
    indents: the emitted module still compiles, the alias / metadata is the exact key, the Literal member the exact value"""
    ch, fw, layout = case
    key = f"a{ch}b"
    val = f"v{ch}w"
    sample = {"outer": {"inner": {key: 1, "z": val, "q": {"deep": {key: 2}}}}}
    reg, gen, roots = infer({"Root": [sample]})
    opts = {"meta": True} if fw in ("attrs", "dataclasses") else {}
    code = render(reg, fw, layout, **opts)
    try:
        tree = ast.parse(code)
    except SyntaxError as e:
        return f"{fw}/{layout}: key with {ch!r}: emitted module does not compile: {e}"
    hits = 0
    for q, node in classes_of(tree):
        for f, a, d in fields_of(node):
            if d is not None and ("alias" in d or "metadata" in d) and f in ("ab", "a_b"):
                hits += 1
                if not _key_recoverable(d, key):
                    return f"{fw}/{layout}: class {q}: key {key!r} is not recoverable exactly from {d!r}"
            if f == "z" and "Literal[" in a:
                got = ast.literal_eval(a[a.index("Literal[") + 8:a.rindex("]")])
                if got != val:
                    return f"{fw}/{layout}: class {q}: Literal member {got!r} differs from the observed value {val!r}"
    if hits < 2 and fw != "base":
        return f"{fw}/{layout}: expected two renamed fields for key {key!r}, found {hits}"
    return None


@bounded("C11", "line_separator_characters_in_nested_models")
def c11_separators(tier, seed):
    cases = [(ch, fw, layout) for ch in SEPARATORS for fw in ("pydantic", "attrs", "dataclasses") for layout in ("nested", "flat")]
    r = run_cases(cases, oracle_c11_separators, "c11_separators")
    r["bound"] = "8 characters that str.splitlines treats as line ends, in a key and a short string value of models at nesting depth 2-4 x 3 frameworks x 2 layouts"
    r["function"] = "models/utils.indent, _generate_code, json.dumps(ensure_ascii=False) in alias / Literal emission"
    return r


@bounded("C03", "line_separator_characters_in_nested_models")
def c03_separators(tier, seed):
    r = c11_separators(tier, seed)
    r["function"] = "models/utils.indent, _generate_code (module must compile and keep its string constants)"
    return r


@bounded("C10", "line_separator_characters_in_nested_models")
def c10_separators(tier, seed):
    r = c11_separators(tier, seed)
    r["function"] = "models/utils.indent (a Literal member in an indented class is still the observed string)"
    return r


@bounded("C12", "line_separator_characters_in_nested_models")
def c12_separators(tier, seed):
    r = c11_separators(tier, seed)
    r["function"] = "models/utils.indent (nested layout must carry the same constants as the flat one)"
    return r


C11_EDGES = [("folded-equal-keys:Field/field", ["Field", "field"]), ("empty-label:!!", ["!!", "ok"]), ("leading-underscore:_x", ["_x", "ok"])]


@bounded("C11", "documented_domain_edges")
def c11_edges(tier, seed):
    """the three key shapes the property statement places outside its domain and lists as known findings: each is probed on every run,
    so that the KNOWN-FINDING line disappears when the behaviour is repaired and any *other* failure of the same oracle is still reported"""
    viol = []
    for wid, keys in C11_EDGES:
        try:
            msg = oracle_c11((keys, "pydantic", True))
        except Exception as e:
            msg = f"raised {type(e).__name__}: {e}"
        if msg:
            viol.append({"id": wid, "input": [keys, "pydantic", True], "what": msg, "replay": {"module": __name__, "fn": "replay", "oracle": "c11"}})
    return {"evaluations": len(C11_EDGES), "distinct": len(C11_EDGES), "violations": viol,
            "bound": "3 fixed key sets: case-folded-equal keys, a key without any letter or digit, a key with a leading underscore (pydantic, unicode conversion on)",
            "function": "prepare_label / convert_field_name"}


# ------------------------------------------------------------------------------------------------ C12
def class_bodies(code):
    out = {}
    for q, n in classes_of(code):
        out.setdefault(q.split(".")[-1], []).append((q, sorted(fields_of(n))))
    return out


def oracle_c12(case):
    samples, fw = case
    reg, gen, roots = infer({"Root": samples}, merge=[ModelFieldsEquals()])
    flat = render(reg, fw, "flat")
    fb = class_bodies(flat)
    for name, lst in fb.items():
        if len(lst) != 1:
            return f"flat layout emits {name} {len(lst)} times"
    if len(fb) != len(reg.models_map):
        return f"flat layout emits {len(fb)} classes for {len(reg.models_map)} models"
    first = classes_of(flat)[0][0]
    if is_tree(reg):
        if first != roots["Root"].type.name:
            return f"flat layout lists {first} before the root model"
        # the nested layout is rendered from a registry of its own: rendering renames models in place, so a registry that the flat
        # layout has already rendered hides what the nested layout does with fresh names
        reg_n, _gen_n, _roots_n = infer({"Root": samples}, merge=[ModelFieldsEquals()])
        nested = render(reg_n, fw, "nested")
        nb = class_bodies(nested)
        for name, lst in nb.items():
            if len(lst) != 1:
                return f"nested layout emits {name} {len(lst)} times"
        if set(nb) != set(fb):
            return f"nested layout classes {sorted(nb)} differ from flat {sorted(fb)}"
        for name in fb:
            ff, nf = fb[name][0][1], nb[name][0][1]
            norm = lambda fs: [(f, a.replace(nb[name][0][0].rsplit(".", 1)[0] + ".", "") if "." in nb[name][0][0] else a, d) for f, a, d in fs]
            strip_q = lambda fs: [(f, _unqualify(a), d) for f, a, d in fs]
            if strip_q(ff) != strip_q(nf):
                return f"class {name} differs between layouts: flat {ff} nested {nf}"
        for m in reg.models:
            parents = {p.parent.name for p in m.pointers if p.parent is not None}
            q = nb[m.name][0][0]
            if parents and (q.split(".")[-2] if "." in q else None) not in parents:
                return f"nested layout places {q} outside the class that references it ({parents})"
    return None


def _unqualify(ann):
    tree = ast.parse(ann, mode="eval")
    for n in ast.walk(tree):
        if isinstance(n, ast.Constant) and isinstance(n.value, str):
            n.value = n.value.split(".")[-1]
    return ast.unparse(tree)


C12_SAMPLES = [
    [{"a": {"x": 1}, "b": {"y": {"z": 1}}}],
    [{"a": {"p": {"q": 1}, "r": {"s": 2}}, "b": {"t": 1}}],
    [{"a": [{"x": {"u": 1}}], "b": 1}],
    [{"a": {"x": 1}, "b": [{"y": "s"}]}, {"a": {"x": 2}}],
    [{"a": {"b": {"c": {"d": 1}}}}],
    [{"alpha": {"papa": {"p": 1}, "quebec": {"q": 2}}, "bravo": {"v": 1}}],
    [{"a": {"k s": 1}, "b": 2}],
    # three and more levels where a model *with children* gets a class name that prepare_label alters, and where only an earlier
    # sibling's subtree needs an import
    [{"list": {"item": {"deep": {"x": 1}}}, "user info": {"a": {"b": {"c": 1}}}, "warnings": {"w": {"v": {"u": 2}}}}],
    [{"first": {"inner": {"xs": [1, 2], "o": None, "m": {"k": 1}}}, "second": {"n": 1}, "third": {"t": {"z": 1.5}}}],
    [{"r": {"first": {"inner": {"xs": [1.5]}}, "last": {"n": 1, "deep": {"d": 1}}}}],
]


@bounded("C12", "flat_and_nested_agree")
def c12(tier, seed):
    cases = [(s, fw) for s in C12_SAMPLES for fw in FRAMEWORKS]
    cases += [(s, "pydantic") for s in itertools.islice(sample_lists(tier, seed), 0, 300 if tier == "quick" else 20000)]
    r = run_cases(cases, oracle_c12, "c12")
    r["bound"] = "10 tree-shaped inputs (depth<=4, sibling subtrees, odd key characters) x 5 frameworks + first 300/20000 sample lists of the C01 domain (flat completeness)"
    r["function"] = "compose_models / compose_models_flat / _generate_code / indent"
    return r


# ------------------------------------------------------------------------------------------------ C18
PSEUDO_VALUES = ["1", "2.5", ["1", "2"], {"k": "3"}, [["4"]], {"k": ["5"]}, [], {}, None, "0", "0.0", "-0", ["0"], {"k": "0"}]


def conv_expected(v, t):
    t0 = strip_opt(t)
    if v is None:
        return None
    if isinstance(t0, DList):
        return [conv_expected(x, t0.type) for x in v]
    if isinstance(t0, DDict):
        return {k: conv_expected(x, t0.type) for k, x in v.items()}
    if is_pseudo(t0):
        return t0.to_internal_value(v)
    return v


def spine_ok(t):
    t0 = strip_opt(t)
    while isinstance(t0, (DList, DDict)):
        t0 = strip_opt(t0.type) if not isinstance(t0.type, DOptional) else None
        if t0 is None:
            return False
    return is_pseudo(t0)


def oracle_c18(case):
    samples, fw, converters = case
    reg, gen, roots = infer({"Root": samples})
    code = render(reg, fw, "flat", post_init_converters=converters)
    ns = load(code)
    cls = ns["Root"]
    m = roots["Root"].type
    from json_to_models.models.base import prepare_label
    for s in samples:
        kwargs = {prepare_label(k, True, True): v for k, v in s.items()}
        try:
            obj = cls(**kwargs)
        except Exception as e:
            return f"{fw} converters={converters}: constructing from {jdump(s)[:80]} raised {type(e).__name__}: {e}"
        if converters:
            for k, v in s.items():
                got = getattr(obj, prepare_label(k, True, True))
                t = m.type[k]
                if spine_ok(t):
                    exp = conv_expected(v, t)
                    if got != exp or type(_leaf(got)) is not type(_leaf(exp)):
                        return f"field {k}: {got!r} after conversion, expected {exp!r} of {type_repr(t, False)}"
                elif got != v:
                    return f"field {k} (not a pure pseudo-type spine) was changed from {v!r} to {got!r}"
    return None


def _leaf(x):
    while isinstance(x, (list, dict)) and x:
        x = x[0] if isinstance(x, list) else next(iter(x.values()))
    return x


def c18_cases(tier, seed):
    rng = random.Random(seed)
    for v in PSEUDO_VALUES:
        yield [{"a": v, "b": 1}]
        yield [{"a": v}, {"b": 2}]
    for v, w in itertools.product(PSEUDO_VALUES, repeat=2):
        yield [{"a": v, "c": "x"}, {"a": w}]
    yield [{"tags": ["1", "2"], "count": "3"}]
    yield [{"m": {"k": "1"}, "n": "2"}, {"n": "3"}]
    # keys that are renamed on the way to attribute names (camelCase, keyword, leading digit, non-ASCII): the converter paths must
    # name the attributes, not the JSON keys
    yield [{"retryCount": "3", "class": ["1", "2"], "2nd": {"k": "1.5"}, "b": 1}]
    yield [{"maxRetries": "3", "Größe": "1.5"}, {"maxRetries": None}]
    yield [{"from": "12", "ID": ["1"]}, {"ID": []}]


@bounded("C18", "construct_and_convert")
def c18(tier, seed):
    cases = []
    for s in c18_cases(tier, seed):
        for fw in ("attrs", "dataclasses"):
            cases.append((s, fw, True))
            # converters off: attrs per-field converters are claimed for int/float strings only (booleans are a listed finding)
            if not any(isinstance(v, str) and v.lower() in ("true", "false") for o in s for v in o.values()):
                cases.append((s, fw, False))
    r = run_cases(cases, oracle_c18, "c18")
    r["bound"] = "int/float pseudo-typed values at paths over {Optional, List, Dict} up to depth 2 incl. empty containers and nulls, all ordered pairs of 9 value shapes x {attrs, dataclasses} x converters on/off"
    r["function"] = "get_string_field_paths / _process_string_field_value / post_init_converters / field_data"
    return r


ORACLES = {"two_generators": lambda c: oracle_two_generators(tuple(c)), "c11_separators": lambda c: oracle_c11_separators(tuple(c)), "c11_classes": lambda c: oracle_c11_classes(tuple(c)), "c03": oracle_c03, "c04": oracle_c04, "c10": oracle_c10, "c11": oracle_c11, "c12": oracle_c12, "c18": oracle_c18}


def replay(w):
    msg = ORACLES[w["replay"]["oracle"]](tuple(w["input"]) if isinstance(w["input"], list) else w["input"])
    print("replay:", "violated: " + msg if msg else "held")
    return 1 if msg else 0
