"""Bounded stand-ins (never counted as proved): run-time contracts on the real functions over enumerated domains."""
import importlib
import os

REGISTRY = {}


def bounded(prop, name):
    def deco(fn):
        REGISTRY.setdefault(prop, []).append({"name": name, "fn": fn})
        return fn
    return deco


def replay(w):
    mod = importlib.import_module(w["replay"]["module"])
    return getattr(mod, w["replay"]["fn"])(w)


for _f in sorted(os.listdir(os.path.dirname(__file__))):
    if _f.endswith(".py") and not _f.startswith("_"):
        importlib.import_module(f"bounded.{_f[:-3]}")
