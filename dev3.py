import sys
sys.path.insert(0, '/verif')
from pyvc.verify import Engine
import z3
e = Engine()
key=[k for k in e.side.contracts if sys.argv[1] in k][0]
e.verify_function(key)
obs=[ob for ob in e.obligations if sys.argv[2] in ob.name]
for ob in obs:
    s=z3.Solver(); s.set('timeout',5000)
    for a in e.voc.axioms: s.add(a)
    for a in ob.assumptions: s.add(a)
    s.add(z3.Not(ob.goal))
    r=s.check()
    print(ob.name, r, s.reason_unknown() if r==z3.unknown else '')
    print(' guards/facts tail:')
    for a in ob.assumptions[-int(sys.argv[3]) if len(sys.argv)>3 else -6:]: print('   ', str(a).replace('\n',' ')[:500])
    print(' GOAL', str(ob.goal).replace('\n',' ')[:1500])
