"""Executable definitions of the specification vocabulary over the type IR (DESIGN section 3).

Written from the property statements, not from the code: inh (membership of a JSON value in an inferred type), NF (C08's
normal form), members / strip, and the documented widenings of C02.  Used by the bounded stand-ins and by run-time contracts.
"""
from pyvc.rtc import ensure_repo_on_path

ensure_repo_on_path()

from json_to_models.dynamic_typing import (  # noqa: E402
    BaseType, ComplexType, DDict, DList, DOptional, DTuple, DUnion, ModelMeta, ModelPtr, Null, SingleType, StringLiteral,
    StringSerializable, Unknown,
)


def is_pseudo(t):
    return isinstance(t, type) and issubclass(t, StringSerializable)


def accepts(k, s) -> bool:
    try:
        k.to_internal_value(s)
        return True
    except ValueError:
        return False


def unwrap_model(t):
    """ModelPtr -> ModelMeta -> fields dict"""
    if isinstance(t, ModelPtr):
        t = t.type
    if isinstance(t, ModelMeta):
        t = t.type
    return t


def inh(v, t) -> bool:
    """does JSON value v inhabit IR type t (C01's wording)"""
    if t is Unknown:
        return True
    if t is Null:
        return v is None
    if isinstance(t, DOptional):
        return v is None or inh(v, t.type)
    if isinstance(t, DUnion):
        return any(inh(v, m) for m in t.types)
    if isinstance(t, DList):
        return isinstance(v, list) and all(inh(x, t.type) for x in v)
    if isinstance(t, DDict):
        return isinstance(v, dict) and all(isinstance(k, str) and inh(x, t.type) for k, x in v.items())
    if isinstance(t, DTuple):
        return isinstance(v, (list, tuple)) and len(v) == len(t.types) and all(inh(x, m) for x, m in zip(v, t.types))
    if isinstance(t, (ModelPtr, ModelMeta)) or isinstance(t, dict):
        fields = unwrap_model(t)
        if not isinstance(v, dict):
            return False
        for k, x in v.items():
            if k not in fields or not inh(x, fields[k]):
                return False
        for k, ft in fields.items():
            if k not in v and not isinstance(ft, DOptional):
                return False
        return True
    if isinstance(t, StringLiteral):
        return isinstance(v, str) and (t.overflowed or v in t.literals)
    if is_pseudo(t):
        return isinstance(v, str) and accepts(t, v)
    if t is str:
        return isinstance(v, str)
    if t is bool:
        return isinstance(v, bool)
    if t is int:
        return isinstance(v, int) and not isinstance(v, bool)
    if t is float:
        return isinstance(v, (int, float)) and not isinstance(v, bool)
    raise TypeError(f"inh: unknown IR type {t!r}")


def nf_violations(t, path="$", follow_models=False, seen=None):
    """list of violations of C08's normal form inside t"""
    out = []
    seen = seen if seen is not None else set()
    if isinstance(t, DUnion):
        ms = t.types
        if len(ms) == 0:
            out.append((path, "empty union"))
        if len(ms) == 1:
            out.append((path, "single-member union"))
        for i, m in enumerate(ms):
            if isinstance(m, DUnion):
                out.append((path, "nested union"))
            if m is Null:
                out.append((path, "null inside union"))
            if isinstance(m, DOptional):
                out.append((path, "Optional inside union"))
            for n in ms[i + 1:]:
                same = (m is n) or (type(m) is type(n) and not isinstance(m, type) and not isinstance(m, dict) and m == n) \
                    or (isinstance(m, dict) and isinstance(n, dict) and m == n)
                if same:
                    out.append((path, f"duplicate member {m}"))
        if int in ms and float in ms:
            out.append((path, "int next to float"))
        if str in ms and any(isinstance(m, StringLiteral) or is_pseudo(m) for m in ms):
            out.append((path, "str next to literal/pseudo-type"))
        for cls in (StringLiteral, DList, DDict):
            if sum(isinstance(m, cls) for m in ms) > 1:
                out.append((path, f"more than one {cls.__name__} member"))
        if sum(isinstance(m, dict) for m in ms) > 1:
            out.append((path, "more than one object member"))
        if sum(1 for m in ms if is_pseudo(m)) > 1:
            out.append((path, "several unresolved pseudo-types"))
    if isinstance(t, DOptional) and isinstance(t.type, DOptional):
        out.append((path, "Optional nested in Optional"))
    if isinstance(t, StringLiteral):
        if t.overflowed:
            out.append((path, "overflowed literal kept"))
        elif not t.literals:
            out.append((path, "empty literal"))
    if isinstance(t, dict):
        for k, x in t.items():
            out += nf_violations(x, f"{path}.{k}", follow_models, seen)
    elif isinstance(t, (ModelPtr, ModelMeta)):
        if follow_models:
            m = t.type if isinstance(t, ModelPtr) else t
            if id(m) not in seen:
                seen.add(id(m))
                out += nf_violations(m.type, f"{path}<{m.index}>", follow_models, seen)
    elif isinstance(t, SingleType):
        out += nf_violations(t.type, path + "[]", follow_models, seen)
    elif isinstance(t, ComplexType):
        for i, m in enumerate(t.types):
            out += nf_violations(m, f"{path}|{i}", follow_models, seen)
    return out


def strip_opt(t):
    return t.type if isinstance(t, DOptional) else t


def members(t):
    t = strip_opt(t)
    if isinstance(t, DUnion):
        out = []
        for m in t.types:
            out += members(m)
        return out
    return [t]
