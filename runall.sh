#!/bin/sh
# dev helper: run every registered quick check, one summary line each
cd "$(dirname "$0")"
for p in C01 C02 C03 C04 C05 C06 C07 C08 C09 C10 C11 C12 C13 C14 C15 C16 C17 C18 C19; do
  out=$(./check $p "$@" 2>&1); rc=$?
  echo "rc=$rc $(echo "$out" | grep '^\[C' | tail -1)"
  echo "$out" | grep -E "^VIOLATION|^CHECKER-BROKEN|^KNOWN-FINDING|note:" | cut -c1-220
done
python3 "$(dirname "$0")/mksummary.py" >/dev/null 2>&1 || true
