import sys, time
sys.path.insert(0, '/verif')
from pyvc.verify import Engine, discharge
e = Engine()
keys = sys.argv[1:] or list(e.side.contracts)
for k in keys:
    for kk in [x for x in e.side.contracts if k in x and e.side.contracts[x].opts.get('verify', True)]:
        print(e.verify_function(kk))
t=time.time()
res = discharge(e, e.obligations, timeout_ms=int(__import__('os').environ.get('TMO','5000')))
cnt={}
for ob in e.obligations:
    i=cnt.get(ob.name,0); cnt[ob.name]=i+1
    r = res[ob.name][i]
    ok = (r['verdict']=='unsat') != ob.expect_fail
    print('OK  ' if ok else 'FAIL', ob.name, r['verdict'], round(r['secs'],2), r['solver'], '' if ok else ob.text)
print('time', round(time.time()-t,1))
