import sys
sys.path.insert(0, '/verif')
from pyvc.verify import Engine
import z3
e = Engine()
key=[k for k in e.side.contracts if sys.argv[1] in k][0]
e.verify_function(key)
ob=[ob for ob in e.obligations if sys.argv[2] in ob.name][int(sys.argv[3]) if len(sys.argv)>3 else 0]
s=z3.Solver(); s.set('timeout',20000); s.set(unsat_core=True)
names={}
for i,a in enumerate(e.voc.axioms):
    p=z3.Bool(f'ax{i}'); names[str(p)]=a; s.assert_and_track(a,p)
for i,a in enumerate(ob.assumptions):
    p=z3.Bool(f'as{i}'); names[str(p)]=a; s.assert_and_track(a,p)
p=z3.Bool('goal'); names['goal']=z3.Not(ob.goal); s.assert_and_track(z3.Not(ob.goal),p)
r=s.check(); print(r)
if r==z3.unsat:
    for c in s.unsat_core(): print(str(c), str(names[str(c)]).replace('\n',' ')[:700]); print()
