"""dev helper: run the deductive engine on a scratch copy of /repo with a textual mutation.
usage: mut.py <relfile> <old> <new> <key-substring>..."""
import os, shutil, subprocess, sys, tempfile
rel, old, new, *keys = sys.argv[1:]
d = tempfile.mkdtemp(prefix="j2m_mut_", dir="/tmp")
try:
    shutil.copytree("/repo/json_to_models", os.path.join(d, "json_to_models"))
    p = os.path.join(d, rel)
    s = open(p).read()
    assert s.count(old) >= 1, "pattern not found"
    open(p, "w").write(s.replace(old, new, 1))
    env = dict(os.environ, VERIF_REPO=d)
    subprocess.run(["/verif/.venv/bin/python", "/verif/dev.py", *keys], env=env)
finally:
    shutil.rmtree(d)
