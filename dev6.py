import sys
sys.path.insert(0, '/verif')
from pyvc.verify import Engine
from pyvc.smt import to_smt2, solve_smt2, solve_cli
e = Engine()
key=[k for k in e.side.contracts if sys.argv[1] in k][0]
e.verify_function(key)
for ob in [ob for ob in e.obligations if sys.argv[2] in ob.name]:
    text=to_smt2(e.voc, ob.assumptions, ob.goal)
    print(ob.name, [ (m, solve_smt2(text, 5000, 0, m)[:2]) for m in ('ematching','default')], solve_cli(text,'cvc5',10)[:2], solve_cli(text,'z3-4.8',10)[:2])
