"""Namespace in which replayable argument recipes (python expressions, stored as text) are evaluated,
plus small enumeration helpers shared by the bounded stand-ins."""
import itertools
import os
import sys


def namespace():
    from .rtc import ensure_repo_on_path
    ensure_repo_on_path()
    ns = {}
    import json_to_models
    import json_to_models.dynamic_typing as dt
    import json_to_models.dynamic_typing.base as dtb
    import json_to_models.dynamic_typing.string_datetime as dts
    import json_to_models.generator as gen
    import json_to_models.registry as reg
    import json_to_models.utils as ut
    import json_to_models.models as models
    import json_to_models.models.base as mbase
    import json_to_models.models.structure as mstruct
    import json_to_models.models.utils as mutils
    import json_to_models.models.attr as mattr
    import json_to_models.models.dataclasses as mdc
    import json_to_models.models.pydantic as mpyd
    import json_to_models.models.sqlmodel as msql
    import json_to_models.models.string_converters as msc
    for m in (dt, dtb, dts, gen, reg, ut, models, mbase, mstruct, mutils, mattr, mdc, mpyd, msql, msc):
        for k, v in vars(m).items():
            if not k.startswith("__"):
                ns.setdefault(k, v)
    ns["NoneTypeIR"] = dtb.NoneType
    from . import recipes
    for k, v in vars(recipes).items():
        if not k.startswith("_"):
            ns[k] = v
    return ns


def build(recipe: str, ns=None):
    ns = ns or namespace()
    return eval(recipe, ns)  # recipes are produced by /verif's own generators only


def subsets(xs, max_size=None):
    xs = list(xs)
    for r in range(0, (max_size if max_size is not None else len(xs)) + 1):
        for c in itertools.combinations(xs, r):
            yield c
