"""Sidecar contract DSL.

A sidecar file is plain Python.  It is read twice:
  * symbolically - pyvc parses the *source* of each clause with `ast` and translates it with the same
    expression translator that it uses for the repository code;
  * concretely  - rtc imports the module and simply calls the clause functions around the real function.

Only the concrete reading lives here (the spec functions below are ordinary Python); the symbolic reading of
the same names is in pyvc/sym.py (SPEC_BUILTINS).
"""
import os
import sys

CONTRACTS = {}      # key -> contract class
LOOPS = {}          # (key, ordinal) -> function
ASSUMED = {}        # external name -> contract class (trusted, listed in evidence)
SORTS = {}          # attribute name -> sort tag
LEMMAS = []


def contract(key, props=(), **opts):
    def deco(cls):
        cls.key = key
        cls.props = list(props)
        cls.opts = opts
        CONTRACTS[key] = cls
        return cls
    return deco


def assumed(name, props=(), **opts):
    def deco(cls):
        cls.key = name
        cls.props = list(props)
        cls.opts = opts
        ASSUMED[name] = cls
        return cls
    return deco


def loop(key, ordinal):
    def deco(fn):
        LOOPS[(key, ordinal)] = fn
        return fn
    return deco


def sorts(**kw):
    SORTS.update(kw)


def written_only_in(attr, function_key):
    """the attribute is assigned only inside that function (checked on the real source every run)"""


def write_once(*attrs):
    """attributes that only `self.<attr> = ...` inside an `__init__` ever assigns (checked on the real source every run)"""


# ----------------------------------------------------------------------------- concrete spec functions
def card(s):
    return len(s)


def implies(a, b):
    return (not a) or bool(b)


def iff(a, b):
    return bool(a) == bool(b)


def forall(coll, pred, trigger=None):
    return all(pred(x) for x in coll)


def exists(coll, pred, trigger=None):
    return any(pred(x) for x in coll)


def subset(a, b):
    return all(x in b for x in a)


def set_eq(a, b):
    return set(a) == set(b)


def is_class(x):
    return isinstance(x, type)


def load_sidecars():
    here = os.path.dirname(os.path.dirname(os.path.abspath(__file__)))
    if here not in sys.path:
        sys.path.insert(0, here)
    import importlib
    for name in sorted(os.listdir(os.path.join(here, "contracts"))):
        if name.endswith(".py") and not name.startswith("_"):
            importlib.import_module(f"contracts.{name[:-3]}")


class NotExecutable(Exception):
    """a clause that mentions ghost state (callee locals) has no run-time reading"""


def local(name):
    raise NotExecutable(name)


def spec(fn):
    """a named specification macro: inlined by pyvc, called as an ordinary function by rtc"""
    import builtins
    g = fn.__globals__
    SPECS[fn.__name__] = fn
    return fn


SPECS = {}


def specrec(fn):
    """a recursive specification predicate: pyvc declares an uninterpreted predicate with the body as its unfolding axiom"""
    SPECS[fn.__name__] = fn
    return fn


def lemma(key, after, forget=(), only=False):
    """an intermediate assertion (cut): proved where the statement whose source starts with `after` has just been executed, then assumed"""
    def deco(fn):
        return fn
    return deco


def elempred(fn):
    """a heap-independent predicate on list elements; `all_<name>(xs)` is the fold-style 'every element satisfies it'
    (fold axioms over append / concatenation, elimination at an index, introduction through a witness)"""
    SPECS[fn.__name__] = fn
    globals()["all_" + fn.__name__] = lambda xs, _f=fn: all(_f(x) for x in xs)
    return fn
