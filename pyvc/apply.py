"""Container methods, contract application, inlining, constructors (part of the Engine)."""
import ast
from typing import Dict, List, Optional

import z3

from .sym import SV, St, Untranslatable, NATIVE, Outcome
from .expr import Frame

MUTATORS = {"append", "extend", "insert", "remove", "pop", "add", "update", "clear", "discard", "setdefault", "sort", "reverse"}


class ApplyMixin:
    # ------------------------------------------------------------------ methods of builtin containers / str
    def container_method(self, recv: SV, name: str, node: ast.Call, st, fr, pre_args=None):
        v = self.voc
        args = pre_args if pre_args is not None else [self.ev(a, st, fr) for a in node.args]
        kw = {k.arg: self.ev(k.value, st, fr) for k in node.keywords} if pre_args is None else {}
        recv_node = node.func.value if isinstance(node.func, ast.Attribute) else None
        pt = recv.pt

        def store(new: SV):
            if recv_node is None:
                raise Untranslatable("mutation of a temporary")
            self.assign_place(recv_node, new, st, fr)

        if pt == "str":
            return self.str_method(recv, name, args, kw, st, fr, node)
        if pt in ("list", "tuple"):
            if name == "append":
                store(SV(v.sapp(recv.t, self.box(args[0])), "list"))
                return SV(v.NONE, "none")
            if name == "extend":
                other = self.as_seq(args[0], st, fr, node)
                store(SV(v.sconcat(recv.t, other.t), "list"))
                return SV(v.NONE, "none")
            if name == "copy":
                return recv
            if name == "pop" and not args:
                self.may_raise(st, fr, "IndexError", v.slen(recv.t) > 0, node, "pop")
                n = v.slen(recv.t)
                last = v.sat(recv.t, n - 1)
                rest = self.slice_(recv, ast.Slice(lower=None, upper=ast.Constant(-1), step=None), st, fr, node)
                store(rest)
                return self.with_sort(last, self.elem_sort(recv_node, fr) if recv_node is not None else "any")
            if name == "remove":
                x = self.box(args[0])
                self.may_raise(st, fr, "ValueError", v.shas(recv.t, x), node, "list.remove")
                f = v.fn("sremove1", v.Val, v.Val, v.Val)
                self.ensure_remove_axioms()
                store(SV(f(recv.t, x), "list"))
                return SV(v.NONE, "none")
            if name == "insert":
                f = v.fn("sinsert", v.Val, z3.IntSort(), v.Val, v.Val)
                self.ensure_insert_axioms()
                store(SV(f(recv.t, self.unbox(args[0], "int").t, self.box(args[1])), "list"))
                return SV(v.NONE, "none")
            if name == "index":
                x = self.box(args[0])
                self.may_raise(st, fr, "ValueError", v.shas(recv.t, x), node, "list.index")
                return SV(v.sidx(recv.t, x), "int")
            if name == "clear":
                store(SV(v.snil, "list"))
                return SV(v.NONE, "none")
        if pt in ("set", "frozenset"):
            if name == "add":
                store(SV(v.sadd(recv.t, self.box(args[0])), "set"))
                return SV(v.NONE, "none")
            if name == "update":
                store(SV(v.sunion(recv.t, self.as_set(args[0], st, fr, node).t), "set"))
                return SV(v.NONE, "none")
            if name == "remove":
                x = self.box(args[0])
                self.may_raise(st, fr, "KeyError", v.has(recv.t, x), node, "set.remove")
                store(SV(v.sdel(recv.t, x), "set"))
                return SV(v.NONE, "none")
            if name == "discard":
                store(SV(v.sdel(recv.t, self.box(args[0])), "set"))
                return SV(v.NONE, "none")
            if name == "copy":
                return recv
        if pt == "dict":
            if name == "keys":
                return SV(v.dkeys(recv.t), "list", py=("dkeys", recv))
            if name == "items":
                return SV(None, "ditems", py=("ditems", recv, recv_node))
            if name == "values":
                return SV(None, "dvalues", py=("dvalues", recv, recv_node))
            if name == "get":
                k = self.box(args[0])
                default = args[1] if len(args) > 1 else SV(v.NONE, "none")
                got = self.with_sort(v.dget(recv.t, k), self.elem_sort(recv_node, fr) if recv_node is not None else "any")
                return self.ite(v.dhas(recv.t, k), got, default)
            if name == "setdefault":
                k = self.box(args[0])
                newd = z3.If(v.dhas(recv.t, k), recv.t, v.dset(recv.t, k, self.box(args[1])))
                store(SV(newd, "dict"))
                return SV(v.dget(newd, k), "any")
            if name == "pop":
                k = self.box(args[0])
                if len(args) == 1:
                    self.may_raise(st, fr, "KeyError", v.dhas(recv.t, k), node, "dict.pop")
                val = v.dget(recv.t, k)
                store(SV(v.ddel(recv.t, k), "dict"))
                return SV(val, "any")
            if name == "update":
                f = v.fn("dupdate", v.Val, v.Val, v.Val)
                self.ensure_dupdate_axioms()
                other = args[0]
                store(SV(f(recv.t, self.box(other)), "dict"))
                return SV(v.NONE, "none")
            if name == "clear":
                store(SV(v.dempty, "dict"))
                return SV(v.NONE, "none")
            if name == "copy":
                return recv
        if pt == "pydict":
            if name == "get":
                for k, val in recv.py[1]:
                    if self.same_const(k, args[0]):
                        return val
                return args[1] if len(args) > 1 else SV(v.NONE, "none")
            if name == "items":
                return SV(None, "pylist", py=("items", [SV(None, "tuple", py=("items", [k, x])) for k, x in recv.py[1]]))
            if name == "keys":
                return SV(None, "pylist", py=("items", [k for k, _ in recv.py[1]]))
        raise Untranslatable(f"method {pt}.{name}")

    def ensure_remove_axioms(self):
        if getattr(self, "_rm_done", False):
            return
        self._rm_done = True
        v = self.voc
        f = v.fn("sremove1", v.Val, v.Val, v.Val)
        s, x, y = z3.Consts("s x y", v.Val)
        k = z3.Int("rmk")
        # remove first occurrence: length drops by one when present; other members survive; an element different
        # from x is a member afterwards iff it was before.  (x itself may remain if it occurred twice.)
        self.global_facts += [
            z3.ForAll([s, x], z3.And(v.slen(f(s, x)) == z3.If(v.shas(s, x), v.slen(s) - 1, v.slen(s)), v.ty(f(s, x)) == v.cls["list"]), patterns=[f(s, x)]),
            z3.ForAll([s, x, y], z3.Implies(z3.Not(v.pyeq(y, x)), v.shas(f(s, x), y) == v.shas(s, y)), patterns=[v.shas(f(s, x), y)]),
            z3.ForAll([s, x, y], z3.Implies(v.shas(f(s, x), y), v.shas(s, y)), patterns=[v.shas(f(s, x), y)]),
            z3.ForAll([s, x], z3.Implies(v.distinct(s), z3.And(v.distinct(f(s, x)), z3.Not(v.shas(f(s, x), x)))), patterns=[f(s, x)]),
            # element-wise: the occurrence at sidx(s, x) is cut out, everything else keeps its relative place
            z3.ForAll([s, x, k], z3.Implies(z3.And(v.shas(s, x), 0 <= k, k < v.slen(f(s, x))),
                                            v.sat(f(s, x), k) == z3.If(k < v.sidx(s, x), v.sat(s, k), v.sat(s, k + 1))), patterns=[v.sat(f(s, x), k)]),
        ]

    def ensure_insert_axioms(self):
        if getattr(self, "_ins_done", False):
            return
        self._ins_done = True
        v = self.voc
        f = v.fn("sinsert", v.Val, z3.IntSort(), v.Val, v.Val)
        s, x, y = z3.Consts("s x y", v.Val)
        i = z3.Int("i")
        self.global_facts += [
            z3.ForAll([s, i, x], z3.And(v.slen(f(s, i, x)) == v.slen(s) + 1, v.ty(f(s, i, x)) == v.cls["list"]), patterns=[f(s, i, x)]),
            z3.ForAll([s, i, x, y], v.shas(f(s, i, x), y) == z3.Or(v.shas(s, y), v.pyeq(y, x)), patterns=[v.shas(f(s, i, x), y)]),
        ]

    def ensure_dupdate_axioms(self):
        if getattr(self, "_dup_done", False):
            return
        self._dup_done = True
        v = self.voc
        f = v.fn("dupdate", v.Val, v.Val, v.Val)
        d, e, k = z3.Consts("d e k", v.Val)
        self.global_facts += [
            z3.ForAll([d, e, k], v.dhas(f(d, e), k) == z3.Or(v.dhas(d, k), v.dhas(e, k)), patterns=[v.dhas(f(d, e), k)]),
            z3.ForAll([d, e, k], v.dget(f(d, e), k) == z3.If(v.dhas(e, k), v.dget(e, k), v.dget(d, k)), patterns=[v.dget(f(d, e), k)]),
            z3.ForAll([d, e], v.ty(f(d, e)) == v.cls["dict"], patterns=[f(d, e)]),
        ]

    def str_method(self, recv, name, args, kw, st, fr, node):
        v = self.voc
        s = recv.t
        if name == "join":
            src = args[0]
            if src.py and src.py[0] == "items":
                parts = [self.unbox(x, "str").t for x in src.py[1]]
                out = []
                for i, p in enumerate(parts):
                    if i:
                        out.append(s)
                    out.append(p)
                if not out:
                    return SV(z3.StringVal(""), "str")
                return SV(z3.Concat(*out) if len(out) > 1 else out[0], "str")
            seq = self.as_seq(src, st, fr, node)
            f = v.fn("strjoin", z3.StringSort(), v.Val, z3.StringSort())
            self.ensure_join_axioms()
            return SV(f(s, seq.t), "str")
        if name == "startswith":
            return SV(z3.PrefixOf(self.unbox(args[0], "str").t, s), "bool")
        if name == "endswith":
            return SV(z3.SuffixOf(self.unbox(args[0], "str").t, s), "bool")
        if name in ("strip", "lower", "upper", "split", "rsplit", "replace", "format", "lstrip", "rstrip"):
            if name in ("split", "rsplit") and len(args) == 2 and f"str.{name}:maxsplit" in self.side.assumed:
                return self.call_named(f"str.{name}:maxsplit", [recv] + args, kw, st, fr, node)
            return self.call_named(f"str.{name}", [recv] + args, kw, st, fr, node)
        raise Untranslatable(f"str.{name}")

    def ensure_join_axioms(self):
        if getattr(self, "_join_done", False):
            return
        self._join_done = True
        v = self.voc
        f = v.fn("strjoin", z3.StringSort(), v.Val, z3.StringSort())
        sep = z3.String("sep")
        s, e = z3.Consts("s e", v.Val)
        self.global_facts += [
            z3.ForAll([sep], f(sep, v.snil) == z3.StringVal(""), patterns=[f(sep, v.snil)]),
            z3.ForAll([sep, s, e], f(sep, v.sapp(s, e)) == z3.If(v.slen(s) == 0, v.V2S(e), z3.Concat(f(sep, s), sep, v.V2S(e))),
                      patterns=[f(sep, v.sapp(s, e))]),
        ]

    # ------------------------------------------------------------------ assignment to places
    def assign_place(self, target: ast.AST, val: SV, st, fr):
        v = self.voc
        if isinstance(target, ast.Name):
            if val.pt == "any" and fr.contract is not None and target.id in getattr(fr.contract, "sorts", {}) and fr.kind != "spec":
                val = self.with_sort(val.t, fr.contract.sorts[target.id])
            st.env[target.id] = val
            return
        if isinstance(target, ast.Attribute):
            obj = self.ev(target.value, st, fr)
            cls = self.static_class(obj)
            if cls is not None:
                m = self.repo.find_method(cls, target.attr + ".setter")
                if m is not None:
                    self.call_function(m, [obj, val], {}, st, fr, target)
                    return
            self.write_attr(obj, target.attr, val, st, fr, target)
            if obj.pt == "tlocal":
                darr = self.heap_get(st, "$def:" + target.attr)
                st.heap["$def:" + target.attr] = z3.Store(darr, self.box(obj), self.voc.B2V(z3.BoolVal(True)))
            return
        if isinstance(target, ast.Subscript):
            cont = self.ev(target.value, st, fr)
            idx = self.ev(target.slice, st, fr)
            if cont.pt == "dict":
                new = SV(v.dset(cont.t, self.box(idx), self.box(val)), "dict", py=cont.py if cont.py and cont.py[0] == "defaultdict" else None)
            elif cont.pt == "list":
                f = v.fn("supd", v.Val, z3.IntSort(), v.Val, v.Val)
                self.ensure_upd_axioms()
                i = self.unbox(idx, "int").t
                self.may_raise(st, fr, "IndexError", z3.And(i >= 0, i < v.slen(cont.t)), target, "setitem")
                new = SV(f(cont.t, i, self.box(val)), "list")
            elif cont.pt == "pydict":
                pairs = [(k, x) for k, x in cont.py[1] if not self.same_const(k, idx)] + [(idx, val)]
                new = SV(None, "pydict", py=("pairs", pairs))
            else:
                raise Untranslatable(f"item assignment on {cont.pt}")
            self.assign_place(target.value, new, st, fr)
            return
        if isinstance(target, (ast.Tuple, ast.List)):
            self.bind_target(target, val, st, fr)
            return
        raise Untranslatable(f"assignment target {type(target).__name__}")

    def ensure_upd_axioms(self):
        if getattr(self, "_upd_done", False):
            return
        self._upd_done = True
        v = self.voc
        f = v.fn("supd", v.Val, z3.IntSort(), v.Val, v.Val)
        s, x = z3.Consts("s x", v.Val)
        i, j = z3.Ints("i j")
        self.global_facts += [
            z3.ForAll([s, i, x], z3.And(v.slen(f(s, i, x)) == v.slen(s), v.ty(f(s, i, x)) == v.cls["list"]), patterns=[f(s, i, x)]),
            z3.ForAll([s, i, x, j], v.sat(f(s, i, x), j) == z3.If(j == i, x, v.sat(s, j)), patterns=[v.sat(f(s, i, x), j)]),
        ]

    # ------------------------------------------------------------------ calling repository functions
    def bind_params(self, fnode: ast.FunctionDef, args: List[SV], kwargs: Dict[str, SV], st, fr, sorts=None, owner=None) -> Dict[str, SV]:
        a = fnode.args
        names = [x.arg for x in a.args]
        env = {}
        pos = [x for x in args if x.pt != "star"]
        star = [x for x in args if x.pt == "star"]
        for n, x in zip(names, pos):
            env[n] = x
        extra = pos[len(names):]
        if a.vararg is not None:
            if star and not extra:
                env[a.vararg.arg] = SV(star[0].py[1].t, "tuple")
            else:
                cur = self.voc.tnil
                for x in extra:
                    cur = self.voc.sapp(cur, self.box(x))
                if star:
                    cur = self.voc.sconcat(cur, star[0].py[1].t)
                env[a.vararg.arg] = SV(cur, "tuple", py=("items", extra) if not star else None)
        elif star and not extra:
            # f(*xs) into fixed parameters: xs must have exactly as many elements as there are unfilled positional parameters
            missing = [n for n in names[len(pos):] if n not in kwargs]
            required = [n for n in missing if n not in names[len(names) - len(a.defaults):]] if a.defaults else missing
            sq = star[0].py[1]
            self.may_raise(st, fr, "TypeError", self.voc.slen(sq.t) == len(required), fnode, "star-arity")
            for i, n in enumerate(required):
                env[n] = SV(self.voc.sat(sq.t, z3.IntVal(i)), "any")
        elif extra or star:
            raise Untranslatable("too many positional arguments / star call")
        for k, x in kwargs.items():
            if k == "**":
                continue
            if k in names or k in [y.arg for y in a.kwonlyargs]:
                env[k] = x
            elif a.kwarg is None:
                raise Untranslatable(f"unexpected keyword {k}")
        if a.kwarg is not None:
            rest = [(SV(z3.StringVal(k), "str"), x) for k, x in kwargs.items() if k not in names and k != "**"]
            if "**" in kwargs:
                env[a.kwarg.arg] = kwargs["**"]
            else:
                env[a.kwarg.arg] = SV(None, "pydict", py=("pairs", rest))
        # defaults
        defaults = dict(zip(names[len(names) - len(a.defaults):], a.defaults))
        for ka, d in zip(a.kwonlyargs, a.kw_defaults):
            if d is not None:
                defaults[ka.arg] = d
        for n in names + [x.arg for x in a.kwonlyargs]:
            if n not in env:
                if n in defaults:
                    dfr = fr
                    if owner is not None and owner.file != getattr(fr.fi, "file", None):
                        # default expressions are evaluated in the callee's module
                        dfr = Frame(owner, None, owner.cls, kind=fr.kind)
                        self.init_frame(dfr)
                    env[n] = self.ev(defaults[n], St(st.guards, st.facts, {}, st.heap, st.eff, st.epoch), dfr)
                else:
                    raise Untranslatable(f"missing argument {n}")
        return env

    def call_function(self, fi, args: List[SV], kwargs: Dict[str, SV], st, fr, node) -> SV:
        """call of a repository function: by contract when it has one, else inline (small helpers / property getters)."""
        key = fi.key
        c = self.side.contracts.get(key)
        root_c = getattr(getattr(fr, "outer_root", fr), "contract", None) or fr.contract
        opaque = (getattr(root_c, "opts", None) or {}).get("abstract_calls", []) if root_c is not None else []
        if c is not None and fr.kind == "code" and key.split("::")[-1].split(".")[-1] in opaque:
            # the caller's contract does not depend on what this callee computes: over-approximate the call (any result of the
            # declared sort, the callee's modifies havocked, any exception) instead of demanding its preconditions
            fr.abstracted.append({"line": getattr(node, "lineno", 0), "stmt": (ast.unparse(node)[:120] if node is not None else key),
                                  "why": f"call of {key.split('::')[-1]} abstracted (abstract_calls)", "hash": ""})
            if not self.exc_is_declared(fr, "*"):
                raise Untranslatable("abstract_calls is only sound in a function that declares `raises *`")
            s2 = st.copy()
            fr.pending.append(Outcome("raise", s2, exc="Exception"))
            for attr in c.modifies:
                if attr == "*effects":
                    st.eff = self.fresh("eff", z3.IntSort())
                elif not self.is_write_once(attr, c):
                    st.heap[attr] = self.fresh(f"H_{attr}", z3.ArraySort(self.voc.Val, self.voc.Val))
            fr.callees.add(key + " (abstracted)")
            return self.with_sort(self.fresh("res"), c.sorts.get("result", "any"))
        if c is not None and not (fr.fi is not None and False):
            return self.apply_contract(c, fi, args, kwargs, st, fr, node)
        if any("cached_method" in d for d in fi.decorators):
            # the decorator's own contract (utils.cached_method) makes the wrapper transparent
            self.used_assumptions.add("cached_method wrapper is transparent (verified separately: utils.cached_method)")
        return self.inline(fi, args, kwargs, st, fr, node)

    def inline(self, fi, args, kwargs, st, fr, node) -> SV:
        depth = getattr(fr, "inline_depth", 0)
        if depth > 6:
            raise Untranslatable(f"inlining too deep at {fi.key} (needs a contract)")
        if fi.key in fr.inline_stack:
            raise Untranslatable(f"recursive call of {fi.key} without a contract")
        sub = Frame(fi, None, fi.cls.split(".")[0] if fi.cls else None, kind=fr.kind)
        self.init_frame(sub)
        sub.inline_depth = depth + 1
        sub.inline_stack = fr.inline_stack + [fi.key]
        sub.try_stack = list(fr.try_stack)
        sub.contract_for_raises = fr.contract
        sub.contract = None
        sub.outer = fr
        sub.def_counter = fr.def_counter
        sub.writes = fr.writes
        sub.effects = fr.effects
        sub.set_iterations = fr.set_iterations
        sub.abstracted = fr.abstracted
        # the inlined body may raise what the caller declares
        sub.contract = type("C", (), {"raises": fr.contract.raises if fr.contract else [], "sorts": (fr.contract.sorts if fr.contract else {})})()
        env = self.bind_params(fi.node, args, kwargs, st, fr, owner=fi)
        env = self.apply_param_sorts(fi, env, sub)
        callee = St(st.guards, st.facts, env, st.heap, st.eff, st.epoch)
        outs = self.exec_block(fi.node.body, callee, sub)
        outs += [o for o in sub.pending]
        sub.pending = []
        normal = []
        for o in outs:
            if o.kind == "raise":
                fr.pending.append(o_with_env(o, st.env))
            elif o.kind in ("return", "normal"):
                normal.append(o)
            else:
                raise Untranslatable("break/continue escaping a function")
        if not normal:
            # every path raises
            st.guards.append(z3.BoolVal(False))
            return self.fresh_sv("unreachable")
        merged, val = self.merge_outcomes(st, normal)
        st.guards, st.facts, st.heap, st.eff = merged.guards, merged.facts, merged.heap, merged.eff
        return val

    def apply_param_sorts(self, fi, env, fr):
        """static sort of parameters: sidecar sorts > annotation in the real source > as passed"""
        out = dict(env)
        ann = {a.arg: a.annotation for a in fi.node.args.args + fi.node.args.kwonlyargs if a.annotation is not None}
        c = self.side.contracts.get(fi.key)
        for n, sv in env.items():
            if sv.pt != "any":
                continue
            pt = None
            if c is not None and n in c.sorts:
                pt = c.sorts[n]
            elif n in ann:
                pt = self.sort_of_annotation(ann[n])
            elif n == "self" and fi.cls:
                pt = "obj:" + fi.cls.split(".")[0] if "." not in fi.cls else "obj:" + fi.cls
            if pt:
                out[n] = self.with_sort(sv.t, pt)
        return out

    def sort_of_annotation(self, a: ast.AST) -> Optional[str]:
        s = ast.unparse(a)
        simple = {"int": "int", "str": "str", "bool": "bool", "float": "float", "set": "set", "dict": "dict", "list": "list"}
        if s in simple:
            return simple[s]
        head = s.split("[")[0]
        if head in ("List", "list", "ImportPathList"):
            return "list"
        if head in ("Set", "AbstractSet", "FrozenSet"):
            return "set"
        if head in ("Dict",):
            return "dict"
        if s in self.repo.classes:
            return "obj:" + s
        if s.strip("'") in self.repo.classes:
            return "obj:" + s.strip("'")
        return None

    def merge_outcomes(self, base: St, outs: List[Outcome]):
        """phi-merge of several normal/return outcomes that share the prefix base.guards"""
        if len(outs) == 1:
            return outs[0].st, (outs[0].val if outs[0].val is not None else SV(self.voc.NONE, "none"))
        n = len(base.guards)
        conds = [z3.And(o.st.guards[n:]) if len(o.st.guards) > n else z3.BoolVal(True) for o in outs]
        merged = St(base.guards[:n], [], {}, {}, None, outs[0].st.epoch)
        if any(o.st.epoch != outs[0].st.epoch for o in outs):
            raise Untranslatable("merging states of different heap epochs")
        merged.guards.append(z3.Or(conds))
        seen = set()
        for o in outs:
            for f in o.st.facts:
                if f.get_id() not in seen:
                    seen.add(f.get_id())
                    merged.facts.append(f)
        # values
        vals = [o.val if o.val is not None else SV(self.voc.NONE, "none") for o in outs]
        val = vals[-1]
        for c, x in zip(reversed(conds[:-1]), reversed(vals[:-1])):
            val = self.ite(c, x, val)
        # env
        names = set()
        for o in outs:
            names |= set(o.st.env)
        for name in names:
            if all(name in o.st.env for o in outs):
                xs = [o.st.env[name] for o in outs]
                if all(x is xs[0] for x in xs):
                    merged.env[name] = xs[0]
                    continue
                try:
                    if all(x.pt in NATIVE for x in xs) or any(x.t is None for x in xs) or max(ite_depth(x.t) for x in xs) < 99:
                        cur = xs[-1]
                        for c, x in zip(reversed(conds[:-1]), reversed(xs[:-1])):
                            cur = self.ite(c, x, cur)
                        merged.env[name] = cur
                    else:
                        # phi node as a fresh constant with one guarded equation per branch: no nesting of if-then-else terms
                        pt = xs[0].pt if all(x.pt == xs[0].pt for x in xs) else "any"
                        for a_ in xs[1:]:
                            if pt == "any" and {a_.pt, xs[0].pt} != {a_.pt}:
                                pt = self.join_pt(xs[0].pt, a_.pt) if len(xs) == 2 else "any"
                        phi = self.fresh("phi_" + name.strip("$"))
                        for c, x in zip(conds, xs):
                            merged.facts.append(z3.Implies(z3.And(list(base.guards[:n]) + [c]), phi == self.box(x)))
                        py = xs[0].py if all(x.py is xs[0].py for x in xs) else None
                        merged.env[name] = SV(phi, pt, py=py)
                except Untranslatable:
                    pass
        attrs = set()
        for o in outs:
            attrs |= set(o.st.heap)
        for a in attrs:
            hs = [o.st.heap.get(a, self.heap0(a, o.st.epoch)) for o in outs]
            if all(h.eq(hs[0]) for h in hs):
                merged.heap[a] = hs[0]
            elif max(ite_depth(h) for h in hs) < 99:
                cur = hs[-1]
                for c, h in zip(reversed(conds[:-1]), reversed(hs[:-1])):
                    cur = z3.If(c, h, cur) if not h.eq(cur) else cur
                merged.heap[a] = cur
            else:
                phi = self.fresh(f"Hphi_{a}", z3.ArraySort(self.voc.Val, self.voc.Val))
                for c, h in zip(conds, hs):
                    merged.facts.append(z3.Implies(z3.And(list(base.guards[:n]) + [c]), phi == h))
                merged.heap[a] = phi
        effs = [o.st.eff if o.st.eff is not None else z3.IntVal(0) for o in outs]
        cur = effs[-1]
        for c, e in zip(reversed(conds[:-1]), reversed(effs[:-1])):
            cur = z3.If(c, e, cur)
        merged.eff = cur
        return merged, val

    # ------------------------------------------------------------------ contracts at call sites
    def apply_contract(self, c, fi, args, kwargs, st, fr, node, fnode=None) -> SV:
        fnode = fnode if fnode is not None else (fi.node if fi is not None else None)
        if fnode is not None:
            env = self.bind_params(fnode, args, kwargs, st, fr, owner=fi)
        else:
            env = {f"a{i}": a for i, a in enumerate(args)}
            env.update(kwargs)
        for n, sv in list(env.items()):
            if n in c.sorts and sv.pt == "any":
                env[n] = self.with_sort(sv.t, c.sorts[n])
        if fi is not None:
            env = self.apply_param_sorts(fi, env, fr)
        spec_fr = Frame(fi if fi is not None else fr.fi, c, fi.cls if fi is not None else None, kind="spec")
        self.init_frame(spec_fr)
        stack = self.__dict__.setdefault("_spec_stack", [])
        if fr.kind == "spec" and (c.key in stack or len(stack) > 3):
            # a clause that mentions the function it specifies (or deep nesting): just name the result, assume nothing more
            sig = [self.voc.Val] * len(env) + [z3.IntSort(), self.voc.Val]
            fsym = self.voc.fn("res_" + c.key.split("::")[-1].replace(".", "_") + f"_{len(env)}", *sig)
            ep = z3.IntVal(0) if ((c.assumed and not c.opts.get("reads_heap")) or c.opts.get("deterministic")) else self.heap_epoch(st)
            return self.with_sort(fsym(*[self.box(a) for a in env.values()], ep), c.sorts.get("result", "any"))
        stack.append(c.key)
        try:
            return self._apply_contract_body(c, fi, env, spec_fr, st, fr, node)
        finally:
            stack.pop()

    def _apply_contract_body(self, c, fi, env, spec_fr, st, fr, node):
        comp_impure = getattr(fr, "in_comp", 0) > 0 and c.modifies and not c.opts.get("deterministic") and fr.kind != "spec"
        if comp_impure:
            # heap-modifying call inside a comprehension: iteration j starts in an arbitrary heap G(j) (for the attributes the callee
            # modifies) and ends in F(j); the result is a function R(j).  After the comprehension those attributes are havocked.
            if not getattr(fr, "comp_index", None):
                raise Untranslatable("heap-modifying call in a comprehension without an index")
            j0 = fr.comp_index[-1]
            site = next(self.fresh_n)
            arr_sort = z3.ArraySort(self.voc.Val, self.voc.Val)
            for attr in c.modifies:
                if attr.startswith("*"):
                    raise Untranslatable("effectful call inside a comprehension")
                if self.is_write_once(attr, c):
                    continue
                g = z3.Function(f"Hpre_{attr}!{site}", z3.IntSort(), arr_sort)
                st.heap[attr] = g(j0)
                fr.comp_modified.add(attr)
        pre_st = St(st.guards, st.facts, env, st.heap, st.eff, st.epoch)
        # preconditions are obligations of the caller
        n_pre = 0
        for cl in c.requires:
            g = self.eval_clause(cl, pre_st, spec_fr)
            if fr.kind != "spec":
                cnt = fr.def_counter.get(("call", c.key, cl.name), 0)
                fr.def_counter[("call", c.key, cl.name)] = cnt + 1
                short = c.key.split("::")[-1]
                self.emit("pre", f"call.{short}.pre.{cl.name}#{cnt}", list(st.guards) + list(pre_st.facts), g, fr,
                          getattr(node, "lineno", 0), ast.unparse(node)[:100] if node is not None else "", None)
            st.facts.append(z3.Implies(z3.And(st.guards) if st.guards else z3.BoolVal(True), g))
            n_pre += 1
        st.facts[:] = pre_st.facts + st.facts[len(pre_st.facts):] if len(pre_st.facts) > len(st.facts) else st.facts
        snap = {}
        for cl in c.snapshot:
            snap[cl.name] = self.eval_clause_value(cl, pre_st, spec_fr)
        # exceptional edges
        for cl in c.raises:
            if cl.name == "never":
                continue
            cond = self.eval_clause(cl, pre_st, spec_fr)
            if z3.is_false(z3.simplify(cond)):
                continue
            exc = cl.name
            if fr.kind == "spec":
                continue
            if self.exc_is_handled(fr, exc) or self.exc_is_declared(fr, exc) or self.exc_is_declared(fr, "*"):
                s2 = st.copy()
                s2.guards.append(cond)
                fr.pending.append(Outcome("raise", s2, exc=exc))
                if c.opts.get("raises_exact", False):
                    st.guards.append(z3.Not(cond))
            else:
                cnt = fr.def_counter.get(("callraise", c.key, exc), 0)
                fr.def_counter[("callraise", c.key, exc)] = cnt + 1
                short = c.key.split("::")[-1]
                self.emit("def", f"call.{short}.noraise.{exc}#{cnt}", list(st.guards) + list(st.facts), z3.Not(cond), fr,
                          getattr(node, "lineno", 0), ast.unparse(node)[:100] if node is not None else "", None)
                st.facts.append(z3.Implies(z3.And(st.guards) if st.guards else z3.BoolVal(True), z3.Not(cond)))
        # havoc what the callee may modify
        old = St(st.guards, st.facts, env, dict(st.heap), st.eff, st.epoch)
        for attr in c.modifies:
            if attr == "*effects":
                st.eff = self.fresh("eff", z3.IntSort())
                continue
            if self.is_write_once(attr, c):
                continue
            if comp_impure:
                fpost = z3.Function(f"Hpost_{attr}!{site}", z3.IntSort(), z3.ArraySort(self.voc.Val, self.voc.Val))
                st.heap[attr] = fpost(j0)
                continue
            st.heap[attr] = self.fresh(f"H_{attr}", z3.ArraySort(self.voc.Val, self.voc.Val))
        # constructors write their own object only (verified at the definition: frame obligation `init-frame.<attr>`)
        if c.opts.get("modifies_self") and "self" in env and env["self"].t is not None:
            xv = self.bv("frx")
            for attr in c.opts.get("modifies_self"):
                st.facts.append(z3.ForAll([xv], z3.Implies(xv != env["self"].t, z3.Select(st.heap[attr], xv) == z3.Select(old.heap.get(attr, self.heap0(attr, old.epoch)), xv)),
                                          patterns=[z3.Select(st.heap[attr], xv)]))
        # result: a function of the arguments for pure callees (determinism), else fresh
        rsort = c.sorts.get("result", "any")
        if c.opts.get("deterministic") and all(a.t is not None for a in env.values()):
            # declared assumption: the result is a function of the arguments alone (heap effects are idempotent bookkeeping)
            self.used_assumptions.add(f"result of {c.key.split('::')[-1]} is a deterministic function of its arguments (declared `deterministic`; C14 audits it)")
            sig = [self.voc.Val] * len(env) + [z3.IntSort(), self.voc.Val]
            fsym = self.voc.fn("res_" + c.key.split("::")[-1].replace(".", "_") + f"_{len(env)}", *sig)
            res_t = fsym(*[self.box(a) for a in env.values()], z3.IntVal(0))
        elif not c.modifies and c.opts.get("function", True) and all(a.t is not None for a in env.values()):
            sig = [self.voc.Val] * len(env) + [z3.IntSort(), self.voc.Val]
            fsym = self.voc.fn("res_" + c.key.split("::")[-1].replace(".", "_") + f"_{len(env)}", *sig)
            # externals are functions of their arguments only; repository functions may read the heap
            ep = z3.IntVal(0) if (c.assumed and not c.opts.get("reads_heap")) else self.heap_epoch(st)
            res_t = fsym(*[self.box(a) for a in env.values()], ep)
        elif comp_impure:
            res_t = z3.Function(f"Rcomp!{site}", z3.IntSort(), self.voc.Val)(j0)
        else:
            res_t = self.fresh("res")
        result = self.with_sort(res_t, rsort)
        post_env = dict(env)
        post_env["result"] = result
        post_env["snap"] = SV(None, "pyfunc", py=("old", snap))
        post_st = St(st.guards, st.facts, post_env, st.heap, st.eff, st.epoch)
        spec_fr.old_state = old
        for cl in c.ensures:
            g = self.eval_clause(cl, post_st, spec_fr)
            post_st.facts.append(z3.Implies(z3.And(st.guards) if st.guards else z3.BoolVal(True), g))
        st.facts[:] = post_st.facts
        fr.callees.add(c.key)
        if c.assumed:
            self.used_assumptions.add(f"assumed contract of external {c.key}")
        return result

    def is_write_once(self, attr, c):
        """a write-once attribute is assigned by the constructor of its own object only (obligation write-once@<attr>); its value
        for an object is therefore a function of the object, and callers of anything but that constructor keep the array"""
        if attr not in self.side.write_once:
            return False
        if attr in (c.opts.get("modifies_self") or ()):
            return False
        self.used_assumptions.add(f"attribute .{attr} is write-once (obligation write-once@{attr}): not havocked across calls that are not its constructor; computed setattr sites of models/string_converters.py exempted by a recorded justification")
        return True

    def heap_epoch(self, st: St):
        """an integer that changes whenever any heap array changed: results of pure calls are functions of it"""
        key = (st.epoch,) + tuple(sorted((a, h.get_id()) for a, h in st.heap.items() if not h.eq(self.heap0(a, st.epoch))))
        tab = self.__dict__.setdefault("_epochs", {})
        if key not in tab:
            tab[key] = (len(tab), list(st.heap.values()))     # keep the arrays alive: ids must stay unique
        return z3.IntVal(tab[key][0])

    def eval_clause(self, cl, st: St, fr: Frame):
        sv = self.eval_clause_value(cl, st, fr)
        return self.truth(sv)

    def eval_clause_value(self, cl, st: St, fr: Frame) -> SV:
        local = St(st.guards, st.facts, dict(st.env), st.heap, st.eff, st.epoch)
        for let in cl.lets:
            self.assign_place(let.targets[0], self.ev(let.value, local, fr), local, fr)
        r = self.ev(cl.expr, local, fr)
        st.facts[:] = local.facts
        return r

    # ------------------------------------------------------------------ externals and constructors
    def call_named(self, name: str, args, kwargs, st, fr, node) -> SV:
        c = self.side.assumed.get(name)
        if c is None:
            raise Untranslatable(f"call of external {name} without an assumed contract")
        return self.apply_contract(c, None, args, kwargs, st, fr, node)

    def construct(self, clsv: SV, args, kwargs, st, fr, node) -> SV:
        v = self.voc
        if not (clsv.py and clsv.py[0] == "class"):
            raise Untranslatable("construction through a symbolic class")
        name = clsv.py[1]
        if name in ("ValueError", "TypeError", "Exception", "RuntimeError", "KeyError", "NotImplementedError", "ImportError"):
            return SV(self.fresh("exc"), "obj:" + name, py=("exc", name))
        key = name.replace("__", ".")
        init = self.repo.find_method(key, "__init__")
        obj = self.fresh("new_" + name)
        st.facts.append(v.ty(obj) == v.cls[name])
        # freshness: distinct from every object reachable before -> modelled by an allocation counter
        self.alloc_fresh(obj, st)
        o = SV(obj, "obj:" + key)
        fr.allocated.append(obj)
        if init is not None:
            self.call_function(init, [o] + args, kwargs, st, fr, node)
        return o

    def alloc_fresh(self, obj, st):
        v = self.voc
        born = v.fn("born", v.Val, z3.IntSort())
        n = next(self.fresh_n)
        st.facts.append(born(obj) == n + 1)
        # freshness: the new object is none of the values the function can already name, nor an element of its list-like variables
        for name_, x in list(st.env.items()):
            if x.t is None or x.pt in NATIVE or x.t.sort() != v.Val:
                continue
            st.facts.append(x.t != obj)
            if x.pt in ("list", "tuple"):
                from .sym import pattern_safe
                if pattern_safe(x.t):
                    j = self.bv("fj", z3.IntSort())
                    st.facts.append(z3.ForAll([j], v.sat(x.t, j) != obj, patterns=[v.sat(x.t, j)]))
        # all pre-existing symbolic inputs have born == 0 (assumed in the function's initial state)

    def call_closure(self, fnode: ast.FunctionDef, args, kwargs, st, fr, node) -> SV:
        """nested def: inlined at each call, sharing the enclosing environment (captured containers are mutated in place)"""
        env = self.bind_params(fnode, args, kwargs, st, fr)
        params = set(env)
        saved = {k: st.env[k] for k in params if k in st.env}
        saved_missing = [k for k in params if k not in st.env]
        st.env.update(env)
        sub = fr
        outs = self.exec_block(fnode.body, st.copy(), fr)
        normal = [o for o in outs if o.kind in ("normal", "return")]
        for o in outs:
            if o.kind == "raise":
                fr.pending.append(o)
        if not normal:
            st.guards.append(z3.BoolVal(False))
            return self.fresh_sv("unreachable")
        merged, val = self.merge_outcomes(st, normal)
        # parameters of the closure are local to it
        for k in params:
            merged.env.pop(k, None)
        for k, x in saved.items():
            merged.env[k] = x
        st.guards, st.facts, st.heap, st.eff, st.env = merged.guards, merged.facts, merged.heap, merged.eff, merged.env
        return val


def ite_depth(t, _memo=None):
    """nesting depth of if-then-else inside a term (DAG-aware)"""
    memo = {} if _memo is None else _memo
    k = t.get_id()
    if k in memo:
        return memo[k]
    d = 0
    if z3.is_app(t):
        sub = max([ite_depth(c, memo) for c in t.children()] + [0])
        d = sub + (1 if t.decl().kind() == z3.Z3_OP_ITE else 0)
    memo[k] = d
    return d


def o_with_env(o: Outcome, env):
    o.st.env = dict(env)
    return o
