"""Symbolic executor: real `ast` of a repository function -> proof obligations.

Modular: calls are replaced by the callee's sidecar contract, loops by their sidecar invariant,
recursion by the function's own contract.  One universal value sort (see smt.py).
"""
import ast
import itertools
from dataclasses import dataclass, field
from typing import Dict, List, Optional, Tuple

import z3

from .frontend import FuncInfo, Repo
from .sidecar import Clause, ContractAst, Sidecars
from .smt import Voc


class Untranslatable(Exception):
    pass


NATIVE = {"int": z3.IntSort, "bool": z3.BoolSort, "float": z3.RealSort, "str": z3.StringSort}


class SV:
    """symbolic value: z3 term + static python-type tag"""
    __slots__ = ("t", "pt", "py")

    def __init__(self, t, pt="any", py=None):
        self.t = t
        self.pt = pt
        self.py = py          # python-level payload for special values (closures, bound methods, py dicts of SV ...)

    def __repr__(self):
        return f"SV({self.t}, {self.pt})"


@dataclass
class Obligation:
    name: str
    kind: str                    # post / pre / inv-entry / inv-step / def / raises / frame / order / smoke
    assumptions: List[z3.BoolRef]
    goal: z3.BoolRef
    func: str
    line: int
    props: List[str]
    text: str = ""
    expect_fail: bool = False    # smoke obligations must NOT be provable
    debug: object = None


class St:
    __slots__ = ("guards", "facts", "env", "heap", "eff", "epoch")

    def __init__(self, guards=(), facts=(), env=None, heap=None, eff=None, epoch=0):
        self.guards = list(guards)
        self.facts = list(facts)
        self.env = dict(env or {})
        self.heap = dict(heap or {})
        self.eff = eff
        self.epoch = epoch

    def copy(self):
        return St(self.guards, self.facts, self.env, self.heap, self.eff, self.epoch)

    def assume(self, f):
        self.facts.append(f)

    def guard(self, g):
        self.guards.append(g)


@dataclass
class Outcome:
    kind: str          # normal / return / raise / break / continue
    st: St
    val: Optional[SV] = None
    exc: Optional[str] = None


class Engine:
    def __init__(self, repo: Repo, side: Sidecars, voc: Voc = None):
        self.repo = repo
        self.side = side
        self.voc = voc or Voc(repo)
        self.fresh_n = itertools.count()
        self.attr_arrays: Dict[str, z3.ArrayRef] = {}
        self.globals_cache: Dict[Tuple[str, str], SV] = {}
        self.global_facts: List[z3.BoolRef] = []
        self.typing_assumptions = 0

    # ------------------------------------------------------------------ fresh symbols
    def fresh(self, prefix, sort=None):
        sort = sort if sort is not None else self.voc.Val
        return z3.Const(f"{prefix}!{next(self.fresh_n)}", sort)

    def bv(self, prefix, sort=None):
        """a bound variable with a globally unique name: z3's SMT2 printer does not rename clashing nested binders"""
        return z3.Const(f"{prefix}%{next(self.fresh_n)}", sort if sort is not None else self.voc.Val)

    def fresh_sv(self, prefix, pt="any"):
        if pt in NATIVE:
            return SV(self.fresh(prefix, NATIVE[pt]()), pt)
        return SV(self.fresh(prefix), pt)

    def named(self, term, st):
        """a pattern-safe alias of term (fresh constant + defining equation) when term itself cannot occur in a trigger"""
        if pattern_safe(term):
            return term
        key = term.get_id()
        cache = self.__dict__.setdefault("_named_cache", {})
        if key not in cache:
            cache[key] = (self.fresh("alias", term.sort()), term)
        c, t = cache[key]
        eqn = c == t
        if not any(f.get_id() == eqn.get_id() for f in st.facts):
            st.facts.append(eqn)
        return c

    def elem_type_fact(self, term, pt, esort):
        """all elements of container `term` (sort tag pt) have python type esort (native sorts only)"""
        v = self.voc
        if esort not in NATIVE:
            return None
        if z3.is_app(term) and term.decl().kind() == z3.Z3_OP_ITE:
            c_, a_, b_ = term.children()
            fa, fb = self.elem_type_fact(a_, pt, esort), self.elem_type_fact(b_, pt, esort)
            return z3.If(c_, fa, fb) if fa is not None and fb is not None else None
        c = v.cls[esort]
        if pt in ("list", "tuple"):
            j = self.bv("ej", z3.IntSort())
            return z3.ForAll([j], z3.Implies(z3.And(0 <= j, j < v.slen(term)), v.ty(v.sat(term, j)) == c), patterns=[v.sat(term, j)])
        if pt in ("set", "frozenset"):
            x = self.bv("ex")
            return z3.ForAll([x], z3.Implies(v.has(term, x), v.ty(x) == c), patterns=[v.has(term, x)])
        return None

    def ite_map(self, term, fn):
        """apply fn to the leaves of a (nested) if-then-else term: keeps constructor axioms applicable"""
        if z3.is_app(term) and term.decl().kind() == z3.Z3_OP_ITE:
            c, a, b = term.children()
            return z3.If(c, self.ite_map(a, fn), self.ite_map(b, fn))
        return fn(term)

    def add_global_fact(self, f):
        if not any(g.get_id() == f.get_id() for g in self.global_facts):
            self.global_facts.append(f)

    def heap0(self, attr, epoch=0):
        key = attr if epoch == 0 else (attr, epoch)
        if key not in self.attr_arrays:
            self.attr_arrays[key] = z3.Const(f"H{epoch}_{attr}", z3.ArraySort(self.voc.Val, self.voc.Val))
        return self.attr_arrays[key]

    # ------------------------------------------------------------------ boxing
    def box(self, sv: SV):
        v = self.voc
        if sv.pt == "int":
            return v.I2V(sv.t)
        if sv.pt == "bool":
            return v.B2V(sv.t)
        if sv.pt == "float":
            return v.R2V(sv.t)
        if sv.pt == "str":
            return v.S2V(sv.t)
        if sv.t is None:
            if sv.pt == "pyfunc":
                # function objects used as data are opaque values
                cache = self.__dict__.setdefault("_fn_vals", {})
                key = id(sv.py[1]) if len(sv.py) > 1 else id(sv.py)
                if key not in cache:
                    cache[key] = self.fresh("fnobj")
                return cache[key]
            raise Untranslatable(f"python-level value used as data: {sv.py!r}")
        return sv.t

    def unbox(self, sv: SV, pt: str) -> SV:
        v = self.voc
        if sv.pt == pt:
            return sv
        if pt == "float" and sv.pt == "int":
            return SV(z3.ToReal(sv.t), "float")
        if pt == "int" and sv.pt == "bool":
            return SV(z3.If(sv.t, 1, 0), "int")
        if sv.pt in NATIVE:
            raise Untranslatable(f"cannot use {sv.pt} as {pt}")
        if sv.t is None:
            raise Untranslatable(f"python-level value used as {pt}: {sv.py!r}"[:160])
        self.typing_assumptions += 1
        f = {"int": v.V2I, "bool": v.V2B, "float": v.V2R, "str": v.V2S}[pt]
        return SV(f(sv.t), pt)

    def with_sort(self, term, pt: str) -> SV:
        """a Val term known (declared) to have sort tag pt"""
        if pt in NATIVE:
            return self.unbox(SV(term, "any"), pt)
        return SV(term, pt)

    def truth(self, sv: SV):
        if sv.py and isinstance(sv.py, tuple) and sv.py[0] == "boolop":
            ts = [self.truth(p) for p in sv.py[2]]
            return z3.And(ts) if sv.py[1] == "and" else z3.Or(ts)
        if sv.pt == "bool":
            return sv.t
        if sv.pt == "int":
            return sv.t != 0
        if sv.pt == "str":
            return z3.Length(sv.t) > 0
        if sv.pt == "float":
            return sv.t != 0
        if sv.pt in ("list", "tuple"):
            return self.voc.slen(sv.t) > 0
        if sv.pt in ("set", "frozenset"):
            return self.voc.card(sv.t) > 0
        if sv.pt == "dict":
            return self.voc.dlen(sv.t) > 0
        if sv.pt == "none":
            return z3.BoolVal(False)
        if sv.pt == "class":
            return z3.BoolVal(True)
        if sv.pt.startswith("obj:"):
            cls = sv.pt[4:]
            if self.repo.find_method(cls, "__len__") is None and self.repo.find_method(cls, "__bool__") is None:
                return z3.BoolVal(True)
        if sv.pt.startswith("opt:"):      # Optional[obj] : None or a truthy object
            return sv.t != self.voc.NONE
        return self.voc.truthy(self.box(sv))

    def eq(self, a: SV, b: SV):
        """python =="""
        if a.pt in NATIVE and b.pt in NATIVE:
            if a.pt == b.pt:
                return a.t == b.t
            if {a.pt, b.pt} <= {"int", "float", "bool"}:
                return self.unbox(a, "float").t == self.unbox(b, "float").t if "float" in (a.pt, b.pt) \
                    else self.unbox(a, "int").t == self.unbox(b, "int").t
            return z3.BoolVal(False)
        if a.pt in NATIVE and b.pt == "any" or b.pt in NATIVE and a.pt == "any":
            n, o = (a, b) if a.pt in NATIVE else (b, a)
            if n.pt == "str":
                return o.t == self.box(n)
            return self.voc.pyeq(self.box(a), self.box(b))
        if a.pt in ("set", "frozenset") and b.pt in ("set", "frozenset"):
            return z3.And(self.voc.subset(a.t, b.t), self.voc.subset(b.t, a.t))
        if a.pt in ("none", "class") or b.pt in ("none", "class"):
            return self.box(a) == self.box(b)
        return self.voc.pyeq(self.box(a), self.box(b))


def pattern_safe(t) -> bool:
    """z3 rejects patterns that contain boolean connectives / ite"""
    seen = set()
    todo = [t]
    while todo:
        x = todo.pop()
        if x.get_id() in seen:
            continue
        seen.add(x.get_id())
        if z3.is_app(x):
            k = x.decl().kind()
            if k in (z3.Z3_OP_ITE, z3.Z3_OP_AND, z3.Z3_OP_OR, z3.Z3_OP_NOT, z3.Z3_OP_IMPLIES, z3.Z3_OP_EQ, z3.Z3_OP_LE, z3.Z3_OP_GE,
                     z3.Z3_OP_LT, z3.Z3_OP_GT, z3.Z3_OP_DISTINCT, z3.Z3_OP_IFF, z3.Z3_OP_XOR):
                return False
            todo.extend(x.children())
        elif z3.is_quantifier(x):
            return False
    return True
