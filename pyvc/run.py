"""Check runner:  python -m pyvc.run <Cxx> [--tier quick|thorough]   |   python -m pyvc.run --replay <file>

exit 0 = property held on everything explored; 1 = violation (VIOLATION line printed); 3 = checker broken.
"""
import argparse
import hashlib
import importlib
import json
import os
import sys
import time
import traceback

HERE = os.path.dirname(os.path.dirname(os.path.abspath(__file__)))
sys.path.insert(0, HERE)

from pyvc import dsl  # noqa: E402

EXTRACTION_DROPS = [
    "docstrings", "type annotations (used only as declared sorts of parameters)", "comments",
    "text of exception messages (an exception is its class)", "__repr__/__str__ of IR classes",
    "decorators are not executed: @property/@classmethod/@staticmethod interpreted structurally, @wraps ignored, "
    "@cached_method read as transparent at the decorated methods: justified by the verified contract of utils.cached_method.cached_fn (returns what the decorated method returns for this method and these arguments; memo stays sound) and obligation only-written-in@__cache__",
]
SEMANTIC_ASSUMPTIONS = [
    "S1 int is mathematical Z (exact for CPython)",
    "S2 float arithmetic treated as real arithmetic (only the shared-key ratio comparison)",
    "S4 dict iterates in insertion order; set/frozenset iteration order is an arbitrary permutation",
    "S5 containers (list/set/dict/tuple) and IR nodes held in locals have value semantics; aliasing between containers is not modelled",
    "S6 attributes live in per-attribute heap maps; calls havoc exactly the callee's modifies set",
    "S7 closed-world class hierarchy as found in the repository; no monkey-patching; builtins not shadowed",
    "S8 implicit exceptions modelled: KeyError, IndexError, ZeroDivisionError, ValueError(unpack/remove/index), StopIteration; "
    "TypeError/AttributeError from ill-typed operands are not modelled except where a contract declares them; MemoryError/RecursionError not modelled",
    "S12 termination is not proved (partial correctness)",
    "parameter and attribute sorts are taken from the source annotations / the sidecar sort table and trusted (not checked at run time)",
]


def load_known():
    p = os.path.join(HERE, "known_findings.json")
    if os.path.exists(p):
        return json.load(open(p))
    return {"findings": [], "fixed": []}


def load_ledger():
    p = os.path.join(HERE, "ledger.json")
    if os.path.exists(p):
        return json.load(open(p))
    return {"obligations": {}, "functions": {}}


def props_of_contract(c):
    ps = set(c.props)
    for cl in c.requires + c.ensures + c.raises:
        if cl.props:
            ps |= set(cl.props)
    return ps


def write_replay(prop, name, payload):
    d = os.path.join(HERE, "evidence", "replay")
    os.makedirs(d, exist_ok=True)
    safe = "".join(ch if ch.isalnum() or ch in "._-" else "_" for ch in name)[:120]
    path = os.path.join(d, f"{prop}-{safe}.json")
    with open(path, "w") as fh:
        json.dump(payload, fh, indent=1, default=str)
    return path


def run_deductive(prop, tier, seed, report):
    from pyvc.verify import Engine, discharge
    eng = Engine()
    known = load_known()
    ledger = load_ledger()
    keys = [k for k, c in eng.side.contracts.items() if prop in props_of_contract(c) and c.opts.get('verify', True)]
    unverified = sorted(k for k, c in eng.side.contracts.items() if not c.opts.get('verify', True))
    funcs = {}
    for k in sorted(keys):
        funcs[k] = eng.verify_function(k)
    obs = [ob for ob in eng.obligations if prop in ob.props or ob.kind == "smoke"]
    timeout = int(os.environ.get("VERIF_TIMEOUT_MS", "10000" if tier == "quick" else "30000"))
    t0 = time.time()
    results = discharge(eng, obs, timeout_ms=timeout, seed=seed)
    # an obligation that the baseline discharged and this run did not is tried once more with four times the budget before it is
    # reported: verdicts must not flip because the machine is busy
    retry = []
    seen_idx = {}
    for i_, ob in enumerate(obs):
        k_ = seen_idx.get(ob.name, 0)
        seen_idx[ob.name] = k_ + 1
        r_ = results.get(ob.name, [])
        if not ob.expect_fail and k_ < len(r_) and r_[k_]["verdict"] != "unsat" and ob.name in ledger.get("obligations", {}):
            retry.append((ob, k_))
    if retry:
        again = discharge(eng, [ob for ob, _ in retry], timeout_ms=timeout * 4, seed=seed + 7)
        cnt = {}
        for ob, k_ in retry:
            j_ = cnt.get(ob.name, 0)
            cnt[ob.name] = j_ + 1
            r2 = again.get(ob.name, [])
            if j_ < len(r2) and r2[j_]["verdict"] == "unsat":
                r2[j_]["solver"] += "(retry x4)"
                results[ob.name][k_] = r2[j_]
    solver_wall = time.time() - t0
    by_name = {}
    idx = {}
    for ob in obs:
        i = idx.get(ob.name, 0)
        idx[ob.name] = i + 1
        r = results[ob.name][i] if i < len(results.get(ob.name, [])) else {"verdict": "error", "secs": 0, "solver": "", "reason": "missing", "tried": []}
        by_name.setdefault(ob.name, []).append((ob, r))
    n_ob = n_dis = 0
    failed = {}
    smoke_bad = []
    by_solver = {}
    solver_time = 0.0
    samples = []
    for name, lst in by_name.items():
        for ob, r in lst:
            solver_time += r["secs"]
            if ob.expect_fail:
                if r["verdict"] == "unsat":
                    smoke_bad.append(name)
                continue
            n_ob += 1
            if r["verdict"] == "unsat":
                n_dis += 1
                by_solver[r["solver"]] = by_solver.get(r["solver"], 0) + 1
                if len(samples) < 12:
                    samples.append({"obligation": name, "kind": ob.kind, "line": ob.line, "solver": r["solver"], "secs": round(r["secs"], 3), "clause": ob.text[:120]})
            else:
                failed.setdefault(name, []).append((ob, r))
    report["deductive"] = {
        "functions_under_contract": sorted(funcs),
        "function_status": {k: {"status": v["status"], "obligations": v["obligations"], "reason": v["reason"], "src_hash": v["src_hash"]} for k, v in funcs.items()},
        "obligations": n_ob, "discharged": n_dis, "by_solver": by_solver, "solver_time_s": round(solver_time, 2),
        "solver_wall_s": round(solver_wall, 2), "smoke_checked": sum(1 for ob in obs if ob.expect_fail),
        "typing_assumptions": eng.typing_assumptions,
        "assumed_contracts_used": sorted(eng.used_assumptions),
        "repo_contracts_not_verified": unverified,
        "stubs_used": sorted({cal for k in funcs for cal in eng.func_reports.get(k, {}).get("callees", []) if cal in unverified}),
    }
    if prop == "C06":
        # order-insensitivity obligations: one per ordered consumption of a set anywhere in the package
        from pyvc.order import analyse
        from contracts.order_sites import ORDER_JUSTIFICATIONS
        sites = analyse(eng.repo, ORDER_JUSTIFICATIONS)
        order_open = []
        counts = {}
        for i, s_ in enumerate(sites):
            n_ob += 1
            name = f"order@{s_.func.split('::')[-1]}#{s_.text[:60]}"
            if s_.verdict == "open":
                order_open.append((name, s_))
            else:
                n_dis += 1
                kind = s_.verdict.split(":")[0]
                by_solver["order-" + kind] = by_solver.get("order-" + kind, 0) + 1
                if len(samples) < 12:
                    samples.append({"obligation": name, "kind": "order", "line": s_.line, "solver": s_.verdict, "clause": s_.why[:120]})
        report["_order_open"] = order_open
        report["deductive"].update({"obligations": n_ob, "discharged": n_dis, "by_solver": by_solver,
                                    "order_sites": len(sites), "order_justified_sites_trusted": sum(1 for s_ in sites if s_.verdict.startswith("justified"))})
    # write-once attributes used by the proofs of this property: the premise is an obligation on the package source
    wo_used = sorted(a_ for a_ in eng.side.write_once if any(f".{a_} is write-once" in u for u in eng.used_assumptions))
    wo_open = []
    for a_ in wo_used:
        n_ob += 1
        bad = write_once_violations(eng.repo, a_)
        name = f"write-once@{a_}"
        if bad:
            wo_open.append((name, bad))
        else:
            n_dis += 1
            by_solver["syntactic-rule"] = by_solver.get("syntactic-rule", 0) + 1
            if len(samples) < 12:
                samples.append({"obligation": name, "kind": "frame", "line": 0, "solver": "syntactic-rule",
                                "clause": f"every assignment to .{a_} in the package is `self.{a_} = ...` inside an __init__, and no __init__ is called on an existing object"})
    for attr_, owner_ in eng.side.written_only_in:
        if not any(k.startswith(owner_) for k in funcs):
            continue
        n_ob += 1
        bad = write_once_violations(eng.repo, attr_, allowed_prefix=owner_)
        name = f"only-written-in@{attr_}"
        if bad:
            wo_open.append((name, bad))
        else:
            n_dis += 1
            by_solver["syntactic-rule"] = by_solver.get("syntactic-rule", 0) + 1
            if len(samples) < 12:
                samples.append({"obligation": name, "kind": "frame", "line": 0, "solver": "syntactic-rule",
                                "clause": f"every assignment to .{attr_} in the package is inside {owner_}"})
    for cname_, sites_ in sorted(class_constant_mutations(eng.repo).items()):
        # C14 / C15 own this obligation; every other property owns it for the classes whose functions it verifies (their proofs read
        # class-level containers as immutable values)
        owner_cls = cname_.rsplit(".", 1)[0].split(".")[-1]
        if prop in ("C14", "C15") or any(("::" + owner_cls + ".") in k for k in funcs):
            n_ob += 1
            name = f"class-constant-not-mutated@{cname_}"
            if sites_:
                wo_open.append((name, sites_))
            else:
                n_dis += 1
                by_solver["syntactic-rule"] = by_solver.get("syntactic-rule", 0) + 1
                if len(samples) < 12:
                    samples.append({"obligation": name, "kind": "frame", "line": 0, "solver": "syntactic-rule",
                                    "clause": "no in-place mutation of this class-level container (directly, through a local alias or through an instance attribute assigned by reference)"})
    if prop in ("C14", "C09"):
        # a generator works with the registry it was given: the module-level default registry (which the command line edits) may be
        # read in the inference code only as a parameter default / in a constructor
        n_ob += 1
        sites_ = default_registry_reads(eng.repo)
        name = "default-registry-only-as-default@generator.py"
        if sites_:
            wo_open.append((name, sites_))
        else:
            n_dis += 1
            by_solver["syntactic-rule"] = by_solver.get("syntactic-rule", 0) + 1
            if len(samples) < 12:
                samples.append({"obligation": name, "kind": "frame", "line": 0, "solver": "syntactic-rule",
                                "clause": "json_to_models/generator.py reads the imported module-level `registry` only in parameter defaults and __init__ bodies"})
    report["_wo_open"] = wo_open
    report["deductive"].update({"obligations": n_ob, "discharged": n_dis, "by_solver": by_solver})
    report["samples"] = samples
    report["_engine"] = eng
    report["_failed"] = failed
    report["_solved_names"] = set(by_name)
    report["_all_generated_names"] = {ob.name for ob in eng.obligations}
    report["_discharged_names"] = sorted(n for n, lst in by_name.items() if all((not ob.expect_fail) and r["verdict"] == "unsat" for ob, r in lst))
    report["_funcs"] = funcs
    report["_smoke_bad"] = smoke_bad
    report["_ledger"] = ledger
    report["_known"] = known
    return report


def default_registry_reads(repo, module="json_to_models/generator.py", name="registry"):
    """places in the inference module that read the module-level default string registry outside a parameter default / a constructor
    body (a local variable or parameter of that name shadows it and is not counted)"""
    import ast
    out = []
    for key, fi in sorted(repo.funcs.items()):
        if not key.startswith(module + "::") or not isinstance(fi.node, (ast.FunctionDef, ast.AsyncFunctionDef)):
            continue
        if fi.node.name == "__init__":
            continue
        a = fi.node.args
        shadow = {x.arg for x in a.args + a.kwonlyargs + a.posonlyargs} | ({a.vararg.arg} if a.vararg else set()) | ({a.kwarg.arg} if a.kwarg else set())
        for st_ in fi.node.body:
            for n in ast.walk(st_):
                if isinstance(n, ast.Name) and isinstance(n.ctx, ast.Store) and n.id == name:
                    shadow.add(name)
        if name in shadow:
            continue
        for st_ in fi.node.body:
            for n in ast.walk(st_):
                if isinstance(n, ast.Name) and isinstance(n.ctx, ast.Load) and n.id == name:
                    out.append(f"{key.split('::')[-1]} line {n.lineno}")
    return sorted(set(out))


def class_constant_mutations(repo):
    """class-level list / dict / set constants and the places that could mutate them in place (directly, through a local alias, or
    through an instance attribute that was assigned the constant by reference).  The translator reads such constants as immutable
    values; this obligation guards that reading (and is what 'state shared between generations' would look like in the source)."""
    import ast
    MUT = {"append", "extend", "insert", "remove", "pop", "add", "update", "clear", "discard", "setdefault", "sort", "reverse", "popitem", "__setitem__"}
    out = {}
    for cname, ci in sorted(repo.classes.items()):
        consts = set()
        for sub in ci.node.body:
            tgt = val = None
            if isinstance(sub, ast.Assign) and len(sub.targets) == 1 and isinstance(sub.targets[0], ast.Name):
                tgt, val = sub.targets[0].id, sub.value
            elif isinstance(sub, ast.AnnAssign) and isinstance(sub.target, ast.Name) and sub.value is not None:
                tgt, val = sub.target.id, sub.value
            if tgt is None or tgt.startswith("__"):
                continue
            if isinstance(val, (ast.List, ast.Dict, ast.Set, ast.ListComp, ast.DictComp, ast.SetComp)) or \
                    (isinstance(val, ast.Call) and isinstance(val.func, ast.Name) and val.func.id in ("list", "dict", "set", "defaultdict", "OrderedDict")):
                consts.add(tgt)
        if not consts:
            continue
        # subclasses see the constant too
        users = [k for k, c2 in repo.classes.items() if cname.split(".")[-1] in [m.split(".")[-1] for m in c2.mro]] or [cname]
        for uname in users:
            uci = repo.classes[uname]
            aliases_attr = {}           # instance attribute -> constant it was assigned by reference
            for fn in [n for n in ast.walk(uci.node) if isinstance(n, (ast.FunctionDef, ast.AsyncFunctionDef))]:
                local_alias = {}
                for n in ast.walk(fn):
                    def const_of(e):
                        if isinstance(e, ast.Attribute) and e.attr in consts and isinstance(e.value, ast.Name) and e.value.id in ("self", "cls", cname.split(".")[-1], uname.split(".")[-1]):
                            return e.attr
                        if isinstance(e, ast.Name) and e.id in local_alias:
                            return local_alias[e.id]
                        if isinstance(e, ast.Attribute) and isinstance(e.value, ast.Name) and e.value.id == "self" and e.attr in aliases_attr:
                            return aliases_attr[e.attr]
                        return None
                    if isinstance(n, ast.Assign) and len(n.targets) == 1:
                        c = const_of(n.value)
                        if c is not None:
                            t = n.targets[0]
                            if isinstance(t, ast.Name):
                                local_alias[t.id] = c
                            elif isinstance(t, ast.Attribute) and isinstance(t.value, ast.Name) and t.value.id == "self":
                                aliases_attr[t.attr] = c
                    site = None
                    if isinstance(n, ast.Call) and isinstance(n.func, ast.Attribute) and n.func.attr in MUT:
                        c = const_of(n.func.value)
                        if c is not None:
                            site = (c, n)
                    elif isinstance(n, (ast.Assign, ast.AugAssign, ast.Delete)):
                        tgts = n.targets if not isinstance(n, ast.AugAssign) else [n.target]
                        for t in tgts:
                            if isinstance(t, ast.Subscript):
                                c = const_of(t.value)
                                if c is not None:
                                    site = (c, n)
                            elif isinstance(n, ast.AugAssign):
                                c = const_of(t)
                                if c is not None:
                                    site = (c, n)
                    if site:
                        out.setdefault(f"{cname}.{site[0]}", []).append(f"{uci.file}:{site[1].lineno}: {ast.unparse(site[1])[:80]}")
        for c in consts:
            out.setdefault(f"{cname}.{c}", [])
    return out


def write_once_violations(repo, attr, allowed_prefix=None):
    """places in the package that could assign `.attr` of an object other than the one under construction"""
    import ast
    from contracts.sorts import WRITE_ONCE_DYNAMIC_SITES_JUSTIFIED
    bad = []
    for key, fi in sorted(repo.funcs.items()):
        fn = fi.node
        in_init = fn.name == "__init__"
        if allowed_prefix is not None:
            if key.startswith(allowed_prefix):
                continue
            in_init = False          # nobody else may assign it, constructors included
        justified = any(key.startswith(j["module"] + "::") for j in WRITE_ONCE_DYNAMIC_SITES_JUSTIFIED)
        for n in ast.walk(fn):
            tgts = []
            if isinstance(n, ast.Assign):
                tgts = n.targets
            elif isinstance(n, (ast.AugAssign, ast.AnnAssign)):
                tgts = [n.target]
            elif isinstance(n, ast.Delete):
                tgts = n.targets
            for t in tgts:
                for sub in ast.walk(t):
                    if isinstance(sub, ast.Attribute) and sub.attr == attr and not isinstance(sub.ctx, ast.Load):
                        if not (in_init and isinstance(sub.value, ast.Name) and sub.value.id == "self"):
                            bad.append(f"{key}:{getattr(n, 'lineno', 0)}: {ast.unparse(n)[:80]}")
            if isinstance(n, ast.Call):
                f = n.func
                name = f.id if isinstance(f, ast.Name) else (f.attr if isinstance(f, ast.Attribute) else "")
                if name in ("setattr", "__setattr__", "delattr", "__delattr__") and any(isinstance(a, ast.Constant) and a.value == attr for a in n.args):
                    bad.append(f"{key}:{n.lineno}: {ast.unparse(n)[:80]}")
                if name in ("setattr", "__setattr__") and not all(isinstance(a, ast.Constant) for a in n.args[1:2]) and not justified:
                    bad.append(f"{key}:{n.lineno}: dynamic {ast.unparse(n)[:80]}")
                if name == "__init__" and isinstance(f, ast.Attribute) and allowed_prefix is None:
                    recv = f.value
                    is_super = isinstance(recv, ast.Call) and isinstance(recv.func, ast.Name) and recv.func.id == "super"
                    if not (is_super and in_init):
                        bad.append(f"{key}:{n.lineno}: explicit constructor call {ast.unparse(n)[:80]}")
    return bad


def witness_for(key, tier, clause=None):
    """bounded search of the real function under the run-time reading of its contract"""
    from pyvc import rtc, domains
    dsl.load_sidecars()
    c = dsl.CONTRACTS.get(key)
    if c is None or not hasattr(c, "domain"):
        return None, 0, 0
    ns = domains.namespace()
    gen = c.domain(tier)
    seen = set()
    evals = 0
    ch = rtc.Checked(key)
    for recipe in gen:
        seen.add(recipe)
        try:
            args = eval(recipe, ns)
        except Exception:
            continue
        if not isinstance(args, tuple):
            args = (args,)
        try:
            ch.call(*args)
        except rtc.ClauseFailure as f:
            return {"key": key, "kind": f.kind, "clause": f.clause, "detail": f.detail, "recipe": recipe}, ch.evaluations, len(seen)
        except Exception as e:   # a clause or generator problem: not a verdict
            return {"key": key, "kind": "checker-error", "clause": "", "detail": f"{type(e).__name__}: {e}", "recipe": recipe, "trace": traceback.format_exc()}, ch.evaluations, len(seen)
    return None, ch.evaluations, len(seen)


def main(argv=None):
    ap = argparse.ArgumentParser()
    ap.add_argument("prop", nargs="?")
    ap.add_argument("--tier", default=os.environ.get("VERIF_TIER", "quick"))
    ap.add_argument("--replay")
    ap.add_argument("--update-ledger", action="store_true")
    a = ap.parse_args(argv)
    if a.replay:
        return replay(a.replay)
    prop = a.prop
    tier = a.tier if a.tier in ("quick", "thorough") else "quick"
    if tier == "thorough":
        os.environ.setdefault("VERIF_PAR", str(min(16, os.cpu_count() or 4)))
    seed = int(os.environ.get("VERIF_SEED", "0") or 0)
    t0 = time.time()
    manifest = json.load(open(os.path.join(HERE, "MANIFEST.json")))
    level = "proof"
    for ch in manifest.get("checks", []):
        if ch["property_id"] == prop:
            level = ch["level_claimed"]["category"]
    report = {"property": prop, "tier": tier}
    violations = []
    known_lines = []
    undecided = []
    broken = []
    try:
        run_deductive(prop, tier, seed, report)
    except Exception as e:
        traceback.print_exc()
        broken.append(f"deductive engine crashed: {type(e).__name__}: {e}")
        report.setdefault("deductive", {"obligations": 0, "discharged": 0, "functions_under_contract": []})
        report.update({"_failed": {}, "_funcs": {}, "_smoke_bad": [], "_ledger": load_ledger(), "_known": load_known(), "samples": []})
    known = report["_known"]
    ledger = report["_ledger"]
    failed = report["_failed"]
    funcs = report["_funcs"]
    if report["_smoke_bad"]:
        broken.append(f"smoke obligations refuted (contradictory requires/axioms): {report['_smoke_bad']}")
    if not broken and report["deductive"]["obligations"] == 0 and funcs and all(r["status"] == "ok" for r in funcs.values()):
        broken.append("zero obligations generated")

    # ---- failed obligations: known finding / witness search / violation / undecided
    kf = [f for f in known.get("findings", []) if f["property"] == prop]
    for name, lst in sorted(failed.items()):
        ob, r = lst[0]
        listed = [f for f in kf if f.get("obligation") == name]
        if listed:
            for f in listed:
                known_lines.append(f"KNOWN-FINDING: property={prop} {f['what']}")
            continue
        # decided against the committed baseline: an obligation that was discharged there, or one that did not exist there (new code
        # brings new definedness / frame obligations), is a violation when it is not discharged now; only the obligations that were
        # already undecided on the baseline stay undecided
        in_ledger = name in ledger.get("obligations", {}) or (bool(ledger.get("obligations")) and not a.update_ledger and name not in ledger.get("undecided", []))
        w, ev, dn = witness_for(ob.func, tier)
        payload = {"property": prop, "obligation": name, "function": ob.func, "line": ob.line, "clause": ob.text,
                   "solver": r, "tree": report["_engine"].repo.tree_hash() if "_engine" in report else None}
        if w is not None and w["kind"] != "checker-error":
            payload["witness"] = w
            path = write_replay(prop, name, payload)
            violations.append((name, path, ""))
        elif in_ledger:
            payload["witness"] = None
            payload["note"] = "obligation was discharged on the committed baseline and is not discharged now; bounded witness search found no failing input"
            path = write_replay(prop, name, payload)
            violations.append((name, path, " no-failing-input-found"))
        else:
            undecided.append({"obligation": name, "verdict": r["verdict"], "reason": "undecided on the committed baseline as well (ledger.undecided); no witness found"})
    for name, s_ in report.get("_order_open", []):
        path = write_replay(prop, name, {"property": prop, "obligation": name, "function": s_.func, "line": s_.line, "site": s_.text,
                                         "consumer": s_.consumer, "witness": None,
                                         "note": "a set is consumed in iteration order here and neither an order-insensitivity rule nor a recorded justification applies"})
        violations.append((name, path, " no-failing-input-found"))
    for name, bad in report.get("_wo_open", []):
        path = write_replay(prop, name, {"property": prop, "obligation": name, "witness": None, "sites": bad,
                                         "note": "an attribute the proofs treat as assigned only by its object's constructor is assigned elsewhere"})
        violations.append((name, path, " no-failing-input-found"))
    # ---- functions that left the subset: bounded stand-in decides
    bounded = []
    for k, rep in sorted(funcs.items()):
        if rep["status"] in ("untranslatable", "unbound"):
            was_ok = ledger.get("functions", {}).get(k) == "ok"
            if rep["status"] == "unbound":
                undecided.append({"function": k, "reason": rep["reason"]})
                continue
            w, ev, dn = witness_for(k, tier)
            bounded.append({"function": k, "why": rep["reason"], "evaluations": ev, "distinct": dn, "undecided_to_bounded": True})
            if w is not None and w["kind"] != "checker-error":
                path = write_replay(prop, k.split("::")[-1] + ".bounded", {"property": prop, "function": k, "witness": w})
                violations.append((k, path, ""))
    # ---- registered bounded stand-ins of this property
    try:
        mod = importlib.import_module("bounded")
        for entry in mod.REGISTRY.get(prop, []):
            tb = time.time()
            res = entry["fn"](tier, seed)
            res["name"] = entry["name"]
            res["wall_s"] = round(time.time() - tb, 2)
            for v in res.pop("violations", []):
                listed = [f for f in kf if f.get("witness_id") and f["witness_id"] == v.get("id")]
                if listed:
                    for f in listed:
                        line = f"KNOWN-FINDING: property={prop} {f['what']}"
                        if line not in known_lines:
                            known_lines.append(line)
                    continue
                path = write_replay(prop, entry["name"] + "." + str(v.get("id", "v")), {"property": prop, "bounded": entry["name"], "witness": v})
                violations.append((entry["name"], path, ""))
            bounded.append(res)
    except Exception as e:
        traceback.print_exc()
        broken.append(f"bounded stand-in crashed: {type(e).__name__}: {e}")

    # ---- evidence
    d = report["deductive"]
    trusted = ["pyvc translator + prelude axioms (/verif/pyvc)", "z3 5.1.0 (primary), cvc5 1.0.3 and z3 4.8.12 (fallback on non-unsat)"] + \
        SEMANTIC_ASSUMPTIONS + d.get("assumed_contracts_used", []) + \
        [f"contract of repository function {k.split('::')[-1]} is assumed, the function is not verified (stub)" for k in d.get("stubs_used", [])]
    cov = {
        "obligations": d["obligations"], "discharged": d["discharged"],
        "checker_cmd": f"./check {prop} --tier {tier}",
        "trusted_base": trusted,
        "functions_under_contract": d.get("functions_under_contract", []),
        "function_status": d.get("function_status", {}),
        "by_solver": d.get("by_solver", {}), "solver_time_s": d.get("solver_time_s", 0), "smoke_checked": d.get("smoke_checked", 0),
        "samples": report.get("samples", []) or [{"note": "no deductive obligations for this property"}],
        "bounded": bounded, "undecided": undecided, "known_findings_hit": known_lines,
        "extraction_drops": EXTRACTION_DROPS,
        "explanation": f"{d['discharged']}/{d['obligations']} SMT obligations generated from the real AST of "
                       f"{len(d.get('functions_under_contract', []))} functions were discharged; bounded stand-ins are listed separately and never counted as proved.",
        "evaluations": sum(b.get("evaluations", 0) for b in bounded) + d["obligations"],
        "distinct_nontrivial": sum(b.get("distinct", b.get("distinct_nontrivial", 0)) for b in bounded) + d["discharged"],
        "rule": "deductive: one case = one proof obligation (distinct by name+path); bounded: one case = one enumerated input accepted by the contract's precondition",
    }
    ev = {"property_id": prop, "tier": tier, "seed": seed, "level": level, "coverage": cov,
          "assumptions": trusted, "wall_s": round(time.time() - t0, 2), "violations": len(violations)}
    os.makedirs(os.path.join(HERE, "evidence"), exist_ok=True)
    with open(os.path.join(HERE, "evidence", f"{prop}.json"), "w") as fh:
        json.dump(ev, fh, indent=1, default=str)

    if a.update_ledger and not violations and not broken:
        # only what this run actually discharged enters the ledger
        for name in report.get("_discharged_names", []):
            if name not in failed:
                ledger.setdefault("obligations", {})[name] = True
        und = set(ledger.get("undecided", []))
        # names of this run's functions that were not even generated this time are stale (the clause is gone)
        prefixes = tuple((k.split("::")[0].replace("json_to_models/", "").replace(".py", "").replace("/", ".") + "." + k.split("::")[-1] + "/") for k in funcs)
        tagged_here = {n for n in und if n.startswith(prefixes) and n not in report.get("_all_generated_names", ())}
        und = {n for n in und if n not in report.get("_solved_names", ()) and n not in tagged_here} | set(failed)
        ledger["undecided"] = sorted(und)
        for k, rep in funcs.items():
            ledger.setdefault("functions", {})[k] = rep["status"]
        with open(os.path.join(HERE, "ledger.json"), "w") as fh:
            json.dump(ledger, fh, indent=1, sort_keys=True)

    for line in known_lines:
        print(line)
    print(f"[{prop}] deductive: {d['discharged']}/{d['obligations']} obligations discharged over {len(d.get('functions_under_contract', []))} functions; "
          f"bounded stand-ins: {len(bounded)}; undecided: {len(undecided)}; wall {ev['wall_s']}s")
    for k, rep in sorted(funcs.items()):
        if rep["status"] != "ok":
            print(f"  note: {k}: {rep['status']}: {rep['reason']}")
    if broken:
        for b in broken:
            print("CHECKER-BROKEN:", b)
        return 3
    if violations:
        for name, path, suffix in violations:
            print(f"VIOLATION property={prop} replay={path}{suffix}")
        return 1
    return 0


def replay(path):
    from pyvc import rtc, domains
    data = json.load(open(path))
    w = data.get("witness")
    print(json.dumps({k: v for k, v in data.items() if k != "solver"}, indent=1, default=str)[:3000])
    if not w:
        print("no concrete input recorded (no-failing-input-found): obligation", data.get("obligation"))
        fn, name = data.get("function"), data.get("obligation")
        if fn and name and "::" in str(fn):
            # re-generate and re-discharge the named obligation on the current tree
            from pyvc.verify import Engine, discharge
            eng = Engine()
            if fn not in eng.side.contracts:
                print("replay: no contract for", fn)
                return 1
            rep = eng.verify_function(fn)
            obs = [ob for ob in eng.obligations if ob.name == name]
            if rep["status"] != "ok" or not obs:
                print(f"replay: function status {rep['status']} ({rep['reason']}); obligation {'not generated' if not obs else 'generated'}")
                return 1
            res = discharge(eng, obs, timeout_ms=30000, seed=0)
            verdicts = [r["verdict"] for r in res.get(name, [])]
            print("replay: obligation", name, "->", verdicts)
            return 0 if verdicts and all(v == "unsat" for v in verdicts) else 1
        return 1
    if "recipe" in w and "key" in w:
        ns = domains.namespace()
        args = eval(w["recipe"], ns)
        if not isinstance(args, tuple):
            args = (args,)
        ch = rtc.Checked(w["key"])
        try:
            r = ch.call(*args)
            print("replay: contract held:", r)
            return 0
        except rtc.ClauseFailure as f:
            print("replay: violated:", f)
            return 1
    if "replay" in w:
        mod = importlib.import_module("bounded")
        return mod.replay(w)
    return 1


if __name__ == "__main__":
    sys.exit(main())
