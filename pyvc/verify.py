"""Per-function verification driver: builds the initial state from the contract, runs the symbolic executor over the
real AST, turns exits into obligations, and discharges obligations with the solvers."""
import ast
import multiprocessing as mp
import os
import time
from typing import Dict, List, Optional

import z3

from .frontend import Repo, FuncInfo
from .sidecar import Sidecars
from .smt import Voc, to_smt2, solve_smt2, solve_cli
from .sym import Engine as _Base, SV, St, Obligation, Outcome, Untranslatable, NATIVE
from .expr import ExprMixin, Frame
from .calls import CallMixin
from .builtins import BuiltinMixin
from .apply import ApplyMixin
from .stmt import StmtMixin


class Engine(ExprMixin, CallMixin, BuiltinMixin, ApplyMixin, StmtMixin, _Base):
    def __init__(self, repo: Repo = None, side: Sidecars = None):
        repo = repo or Repo()
        side = side or Sidecars()
        super().__init__(repo, side)
        self.obligations: List[Obligation] = []
        self.used_assumptions = set()
        self.comp_info = {}
        self.untranslatable: Dict[str, str] = {}
        self.func_reports: Dict[str, dict] = {}

    def init_frame(self, fr: Frame):
        fr.def_counter = {}
        fr.writes = []
        fr.effects = []
        fr.set_iterations = []
        fr.allocated = []
        fr.callees = set()
        fr.inline_stack = []
        fr.inline_depth = 0
        fr.current_exc = None
        fr.entry_state = None
        fr.abstracted = []
        fr.lemmas_used = set()

    def emit(self, kind, name, assumptions, goal, fr, line, text, props):
        fi = fr.fi
        owner = getattr(fr, "root", fr)
        c = owner.contract if hasattr(owner, "contract") else None
        key = self.current_key
        short = key.split("::")[-1]
        mod = key.split("::")[0].replace("json_to_models/", "").replace(".py", "").replace("/", ".")
        ob = Obligation(
            name=f"{mod}.{short}/{name}", kind=kind, assumptions=list(self.global_facts_ref) + assumptions, goal=goal,
            func=key, line=line, props=props if props is not None else list(self.current_props), text=text)
        ob.debug = getattr(self, "_debug_state", None)
        self.obligations.append(ob)

    # ------------------------------------------------------------------ one function
    def verify_function(self, key: str) -> dict:
        c = self.side.contracts.get(key)
        fi = self.repo.func(key)
        rep = {"key": key, "status": "ok", "obligations": 0, "reason": "", "src_hash": fi.src_hash if fi else None,
               "line": fi.lineno if fi else None}
        self.func_reports[key] = rep
        if fi is None:
            rep["status"] = "unbound"
            rep["reason"] = "function not found in the repository (renamed or removed)"
            return rep
        n0 = len(self.obligations)
        self.current_key = key
        self.current_props = c.props
        self.global_facts_ref = self.global_facts
        try:
            self._verify(fi, c)
        except Untranslatable as e:
            del self.obligations[n0:]
            rep["status"] = "untranslatable"
            rep["reason"] = str(e)
            self.untranslatable[key] = str(e)
        except RecursionError:
            del self.obligations[n0:]
            rep["status"] = "untranslatable"
            rep["reason"] = "recursion limit in translator"
        except (ValueError, KeyError, AttributeError, TypeError, IndexError, z3.Z3Exception) as e:
            import traceback
            del self.obligations[n0:]
            rep["status"] = "untranslatable"
            rep["reason"] = f"translator error {type(e).__name__}: {e} @ {traceback.extract_tb(e.__traceback__)[-1][:3]}"
            self.untranslatable[key] = rep["reason"]
        rep["obligations"] = len(self.obligations) - n0
        return rep

    KNOWN_DECORATORS = ("property", "classmethod", "staticmethod", "cached_method", "cached_classmethod", "abstractmethod")

    def decorator_obligation(self, fi: FuncInfo, c, fr: Frame):
        """The translation does not execute decorators: it reads @property / @classmethod / @staticmethod structurally, @cached_method
        through the verified contract of its wrapper, and `<name>.setter`.  Any other decorator on a function under contract would be
        dropped silently (a memoising or wrapping decorator changes what callers get), so its absence is an obligation."""
        bad = [d for d in fi.decorators if not (d in self.KNOWN_DECORATORS or d.endswith(".setter") or d.endswith(".deleter")
                                                or d.startswith("wraps(") or d.startswith("functools.wraps("))]
        self.emit("frame", "extraction.only_known_decorators", [], z3.BoolVal(not bad), fr, fi.lineno,
                  ("decorator(s) the translation would ignore: " + ", ".join(bad)) if bad else "no decorator beyond the structurally read ones", None)

    def param_frame_obligations(self, fi: FuncInfo, c, fr: Frame):
        """Guard of assumption S5 (containers have value semantics): a container passed as an argument must not be mutated in place
        by the callee, because the caller's view of it would change behind the caller's contract.  One obligation per container
        parameter, decided on the source: no augmented assignment, mutator call, item store or item deletion through the parameter
        name (unless the name is plainly re-bound first somewhere in the function, or the contract declares `mutates`)."""
        from .apply import MUTATORS
        a = fi.node.args
        allowed = set(c.opts.get("mutates", []) or [])
        immut = {"int", "str", "bool", "float", "tuple", "Tuple", "bytes", "frozenset", "FrozenSet", "type", "Type", "Callable", "Pattern", "Path"}
        rebound = set()
        for n in ast.walk(fi.node):
            if isinstance(n, ast.Assign):
                for t in n.targets:
                    for x in ast.walk(t):
                        if isinstance(x, ast.Name) and isinstance(x.ctx, ast.Store):
                            rebound.add(x.id)
            elif isinstance(n, (ast.AnnAssign, ast.For, ast.comprehension)):
                for x in ast.walk(n.target):
                    if isinstance(x, ast.Name):
                        rebound.add(x.id)
        for x in a.args + a.kwonlyargs:
            p = x.arg
            if p in ("self", "cls") or p in allowed or p in rebound:
                continue
            ann = ast.unparse(x.annotation).split("[")[0].split(".")[-1].strip("'\"") if x.annotation is not None else ""
            srt = c.sorts.get(p, "")
            if ann in immut or srt in ("int", "str", "bool", "float", "tuple", "class") or srt.startswith("obj:"):
                continue
            sites = []
            for n in ast.walk(fi.node):
                if isinstance(n, ast.AugAssign) and isinstance(n.target, ast.Name) and n.target.id == p:
                    sites.append(f"line {n.lineno}: {ast.unparse(n)[:60]}")
                elif isinstance(n, ast.Call) and isinstance(n.func, ast.Attribute) and isinstance(n.func.value, ast.Name) and n.func.value.id == p \
                        and n.func.attr in MUTATORS:
                    sites.append(f"line {n.lineno}: {ast.unparse(n)[:60]}")
                elif isinstance(n, (ast.Assign, ast.AugAssign, ast.Delete)):
                    tg = n.targets if not isinstance(n, ast.AugAssign) else [n.target]
                    for t in tg:
                        if isinstance(t, ast.Subscript) and isinstance(t.value, ast.Name) and t.value.id == p:
                            sites.append(f"line {n.lineno}: {ast.unparse(n)[:60]}")
            self.emit("frame", f"frame.argument_not_mutated.{p}", [], z3.BoolVal(not sites), fr, fi.lineno,
                      ("argument container mutated in place: " + "; ".join(sites)) if sites else f"no in-place mutation of argument {p}", None)

    def initial_state(self, fi: FuncInfo, c, fr: Frame) -> St:
        v = self.voc
        st = St()
        a = fi.node.args
        ann = {x.arg: x.annotation for x in a.args + a.kwonlyargs if x.annotation is not None}
        born = v.fn("born", v.Val, z3.IntSort())
        for x in a.args + a.kwonlyargs + ([a.vararg] if a.vararg else []) + ([a.kwarg] if a.kwarg else []):
            n = x.arg
            pt = c.sorts.get(n)
            if pt is None and n in ann:
                pt = self.sort_of_annotation(ann[n])
            if pt is None and n == "self" and fi.cls:
                pt = "obj:" + fi.cls
            if pt is None and n == "cls" and fi.cls:
                pt = "class"
            if pt is None and a.vararg is not None and n == a.vararg.arg:
                pt = "tuple"
            pt = pt or "any"
            sv = self.fresh_sv("arg_" + n, pt)
            st.env[n] = sv
            if pt.startswith("obj:"):
                st.facts.append(v.isinstance_(sv.t, pt[4:].replace(".", "__")))
            elif pt in ("list", "tuple", "dict", "set"):
                st.facts.append(v.ty(sv.t) == v.cls[pt])
            elif pt == "class" and n == "cls" and fi.cls:
                st.facts.append(z3.Or([v.cls_of(sv.t) == v.cls[s] for s in v.subclasses_of(fi.cls.replace(".", "__"))]))
                st.facts.append(v.ty(sv.t) == v.cls["type"])
            if pt not in NATIVE:
                st.facts.append(born(sv.t) == 0)
            es = c.sorts.get(n + "[]")
            if es:
                f = self.elem_type_fact(sv.t, pt, es)
                if f is not None:
                    st.facts.append(f)
            ks = c.sorts.get(n + "[k]")
            if ks in NATIVE and pt == "dict":
                kx = self.bv("kx")
                st.facts.append(z3.ForAll([kx], z3.Implies(v.dhas(sv.t, kx), v.ty(kx) == v.cls[ks]), patterns=[v.dhas(sv.t, kx)]))
        enc = self.repo.funcs.get(getattr(fi, "enclosing", None) or "")
        if enc is not None:
            ea = enc.node.args
            for x in ea.args + ea.kwonlyargs:
                if x.arg not in st.env:
                    sv = self.fresh_sv("free_" + x.arg, c.sorts.get(x.arg, "any"))
                    st.env[x.arg] = sv
                    st.facts.append(born(sv.t) == 0)
        st.eff = z3.IntVal(0)
        return st

    def _verify(self, fi: FuncInfo, c):
        fr = Frame(fi, c, fi.cls.split(".")[0] if fi.cls and fi.cls.split(".")[0] in self.repo.classes and "." not in fi.cls else fi.cls)
        self.init_frame(fr)
        st = self.initial_state(fi, c, fr)
        spec_fr = Frame(fi, c, fr.cls, kind="spec")
        self.init_frame(spec_fr)
        for cl in c.requires:
            g = self.eval_clause(cl, st, spec_fr)
            st.facts.append(g)
        snap = {}
        for cl in c.snapshot:
            snap[cl.name] = self.eval_clause_value(cl, st, spec_fr)
        entry = st.copy()
        fr.entry_state = entry
        self.param_frame_obligations(fi, c, fr)
        self.decorator_obligation(fi, c, fr)
        is_gen = any(isinstance(n, (ast.Yield, ast.YieldFrom)) for n in ast.walk(fi.node))
        outs = self.exec_block(fi.node.body, st, fr)
        outs += fr.pending
        n_exits = 0
        for o in outs:
            if o.kind in ("normal", "return"):
                n_exits += 1
                val = o.val if o.val is not None else SV(self.voc.NONE, "none")
                if is_gen:
                    val = o.st.env.get("$yielded", SV(self.voc.snil, "list"))
                self.check_post(fi, c, fr, spec_fr, entry, o.st, val, snap)
            elif o.kind == "raise":
                n_exits += 1
                self.check_raise(fi, c, fr, spec_fr, entry, o, snap)
            else:
                raise Untranslatable("break/continue outside a loop")
        # smoke: the end of the function must be reachable under the contract's preconditions
        reach = [z3.And(o.st.guards) if o.st.guards else z3.BoolVal(True) for o in outs if o.kind in ("normal", "return")]
        if reach:
            allf = []
            seen = set()
            for o in outs:
                if o.kind in ("normal", "return"):
                    for f in o.st.facts:
                        if f.get_id() not in seen:
                            seen.add(f.get_id())
                            allf.append(f)
            ob_n = len(self.obligations)
            self.emit("smoke", "smoke.reachable", allf, z3.Not(z3.Or(reach)), fr, fi.lineno, "some normal exit is reachable (must NOT be provable)", None)
            self.obligations[ob_n].expect_fail = True
        rep = self.func_reports[fi.key]
        rep["exits"] = n_exits
        rep["writes"] = sorted({w[0] for w in fr.writes})
        rep["set_iterations"] = fr.set_iterations
        rep["callees"] = sorted(fr.callees)
        rep["effects"] = fr.effects
        rep["abstracted"] = fr.abstracted
        missing = [n for _a, _h, n in self.side.lemmas.get(fi.key, []) if n not in fr.lemmas_used]
        if missing:
            raise Untranslatable(f"lemma binding lost (statement text not found): {missing}")

    def check_post(self, fi, c, fr, spec_fr, entry: St, st: St, val: SV, snap):
        env = dict(entry.env)
        # parameters that are heap objects keep their identity; post refers to parameters' entry values
        rsort = c.sorts.get("result")
        if rsort and val.pt == "any":
            val = self.with_sort(val.t, rsort)
        env["result"] = val
        env["snap"] = SV(None, "pyfunc", py=("old", snap))
        post_st = St(st.guards, st.facts, env, st.heap, st.eff, st.epoch)
        spec_fr.old_state = entry
        spec_fr.exit_env = st.env
        for cl in c.ensures:
            g = self.eval_clause(cl, post_st, spec_fr)
            self._debug_state = (post_st, spec_fr)
            self.emit("post", f"post.{cl.name}", list(post_st.guards) + list(post_st.facts), g, fr, fi.lineno,
                      ast.unparse(cl.expr)[:160], cl.props)
        # constructors: every attribute written is written at `self` only (callers rely on this frame)
        if c.opts.get("modifies_self") and "self" in entry.env:
            for attr in c.opts.get("modifies_self"):
                line = fi.lineno
                cur = self.heap_get(post_st, attr)
                oldh = self.heap_get(entry, attr)
                x = self.bv("fx")
                goal = z3.ForAll([x], z3.Implies(x != self.box(entry.env["self"]), z3.Select(cur, x) == z3.Select(oldh, x)))
                self.emit("frame", f"self-frame.{attr}", list(post_st.guards) + list(post_st.facts), goal, fr, line,
                          f".{attr} changes at `self` only", None)
        # frame: every heap attribute written must be in `modifies` unless the written object was allocated here
        mods = set(c.modifies)
        for attr, obj, line in fr.writes:
            if attr in mods or "*" in mods:
                continue
            v = self.voc
            born = v.fn("born", v.Val, z3.IntSort())
            is_self_init = fi.node.name == "__init__"
            cur = self.heap_get(post_st, attr)
            old = self.heap_get(entry, attr)
            x = self.bv("fx")
            goal = z3.ForAll([x], z3.Implies(born(x) == 0, z3.Select(cur, x) == z3.Select(old, x))) if not is_self_init else \
                z3.ForAll([x], z3.Implies(z3.And(born(x) == 0, x != self.box(entry.env["self"])), z3.Select(cur, x) == z3.Select(old, x)))
            cnt = fr.def_counter.get(("frame", attr), 0)
            if cnt == 0:
                fr.def_counter[("frame", attr)] = 1
                self.emit("frame", f"frame.{attr}", list(post_st.guards) + list(post_st.facts), goal, fr, line,
                          f"write to .{attr} not covered by modifies", None)

    def check_raise(self, fi, c, fr, spec_fr, entry: St, o: Outcome, snap):
        env = dict(entry.env)
        env["snap"] = SV(None, "pyfunc", py=("old", snap))
        st = o.st
        post_st = St(st.guards, st.facts, env, st.heap, st.eff, st.epoch)
        spec_fr.old_state = entry
        allowed = []
        for cl in c.raises:
            if cl.name in ("*",) or cl.name == o.exc or o.exc in self.voc.subclasses_of(cl.name):
                pre_st = St(st.guards, st.facts, env, entry.heap, entry.eff, entry.epoch)
                allowed.append(self.eval_clause(cl, pre_st, spec_fr))
                st.facts[:] = pre_st.facts
        goal = z3.Or(allowed) if allowed else z3.BoolVal(False)
        cnt = fr.def_counter.get(("raises", o.exc), 0)
        fr.def_counter[("raises", o.exc)] = cnt + 1
        self.emit("raises", f"raises.{o.exc}#{cnt}", list(st.guards) + list(st.facts), goal, fr, fi.lineno,
                  f"exception {o.exc} escapes only under its declared condition", None)
        # exceptional postconditions: clauses named "exc.*" in ensures_exc
        for cl in getattr(c, "ensures_exc", []) or []:
            g = self.eval_clause(cl, post_st, spec_fr)
            self.emit("post", f"excpost.{cl.name}#{cnt}", list(post_st.guards) + list(post_st.facts), g, fr, fi.lineno, "", cl.props)


# ---------------------------------------------------------------------- discharging
_JOBCTX = {}


def _solve_one(job):
    idx, name, timeout_ms, seed, expect_fail = job
    eng, obs = _JOBCTX["engine"], _JOBCTX["obs"]
    ob = obs[idx]
    text = to_smt2(eng.voc, ob.assumptions, ob.goal)      # serialised in the worker (forked copy of the z3 context)
    if expect_fail:
        verdict, secs, solver, reason = solve_smt2(text, min(timeout_ms, 1000), seed, mode="ematching")
        return name, verdict, secs, solver, reason, [(solver, verdict, round(secs, 3))]
    verdict, secs, solver, reason = solve_smt2(text, min(3000, timeout_ms), seed, mode="ematching")
    tried = [(solver, verdict, round(secs, 3))]
    if verdict != "unsat":
        for alt in ("z3-default", "cvc5", "z3-ematching-long", "z3-4.8"):
            if alt == "z3-default":
                v2, s2, n2, _ = solve_smt2(text, timeout_ms, seed, mode="default")
            elif alt == "z3-ematching-long":
                v2, s2, n2, _ = solve_smt2(text, timeout_ms, seed + 1, mode="ematching")
            else:
                v2, s2, n2, _ = solve_cli(text, alt, max(10, timeout_ms // 1000))
            tried.append((n2, v2, round(s2, 3)))
            secs += s2
            if v2 == "unsat":
                verdict, solver = v2, n2
                break
    return name, verdict, secs, solver, reason, tried


def discharge(engine: Engine, obligations: List[Obligation], timeout_ms=10000, seed=0, workers=None):
    jobs = [(i, ob.name, timeout_ms, seed, ob.expect_fail) for i, ob in enumerate(obligations)]
    workers = workers or min(16, os.cpu_count() or 4)
    results = {}
    if not jobs:
        return results
    _JOBCTX["engine"], _JOBCTX["obs"] = engine, obligations
    ordered = [None] * len(jobs)
    with mp.get_context("fork").Pool(workers) as pool:
        for i, out in enumerate(pool.imap(_solve_one, jobs, chunksize=1)):
            ordered[i] = out
    for name, verdict, secs, solver, reason, tried in ordered:
        results.setdefault(name, []).append({"verdict": verdict, "secs": secs, "solver": solver, "reason": reason, "tried": tried})
    return results
