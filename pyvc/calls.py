"""Attributes, subscripts, calls, comprehensions (part of the Engine)."""
import ast
from typing import Dict, List, Optional

import z3

from .sym import SV, St, Untranslatable, NATIVE, Outcome
from .expr import Frame


class CallMixin:
    # ------------------------------------------------------------------ heap
    def heap_get(self, st: St, attr: str):
        if attr not in st.heap:
            st.heap[attr] = self.heap0(attr, st.epoch)
        return st.heap[attr]

    def attr_sort(self, attr: str, fr: Frame) -> str:
        if fr.contract is not None and attr in fr.contract.sorts:
            return fr.contract.sorts[attr]
        return self.side.attr_sorts.get(attr, "any")

    def select(self, arr, o):
        """Select pushed through conditional heaps, so that quantifier triggers see the underlying terms"""
        if z3.is_app(arr) and arr.decl().kind() == z3.Z3_OP_ITE:
            c, a, b = arr.children()
            return z3.If(c, self.select(a, o), self.select(b, o))
        if z3.is_app(arr) and arr.decl().kind() == z3.Z3_OP_STORE:
            # read over write: resolve syntactically when the index is syntactically the stored one
            a, i, val = arr.children()
            if i.eq(o):
                return val
        return z3.Select(arr, o)

    def read_attr(self, obj: SV, attr: str, st: St, fr: Frame) -> SV:
        arr = self.heap_get(st, attr)
        return self.with_sort(self.select(arr, self.box(obj)), self.attr_sort(attr, fr))

    def write_attr(self, obj: SV, attr: str, val: SV, st: St, fr: Frame, node=None):
        arr = self.heap_get(st, attr)
        st.heap[attr] = z3.Store(arr, self.box(obj), self.box(val))
        self.note_write(fr, obj, attr, st, node)

    def note_write(self, fr, obj, attr, st, node):
        fr.writes.append((attr, obj, getattr(node, "lineno", 0)))

    # ------------------------------------------------------------------ attribute
    def static_class(self, sv: SV) -> Optional[str]:
        if sv.pt.startswith("obj:") or sv.pt.startswith("opt:"):
            return sv.pt[4:]
        return None

    def ev_Attribute(self, node, st, fr):
        # module.attr references are resolved at call time
        if isinstance(node.value, ast.Name) and node.value.id not in st.env:
            base = self.global_name(node.value.id, fr, node)
            if base.pt == "pyfunc" and base.py[0] == "name":
                return self.get_attr(base, node.attr, st, fr, node)
        obj = self.ev(node.value, st, fr)
        return self.get_attr(obj, node.attr, st, fr, node)

    def get_attr(self, obj: SV, attr: str, st, fr, node) -> SV:
        v = self.voc
        if obj.pt == "pyfunc":
            if obj.py[0] == "name":
                full = f"{obj.py[1]}.{attr}"
                if ("ext:" + full) in self.side.attr_sorts:
                    gt = z3.Const("G_" + full.replace(".", "_"), self.voc.Val)
                    self.add_global_fact(self.voc.fn("born", self.voc.Val, z3.IntSort())(gt) == 0)
                    pt_ = self.side.attr_sorts["ext:" + full]
                    if pt_ in ("list", "tuple", "dict"):
                        self.add_global_fact(self.voc.ty(gt) == self.voc.cls[pt_])
                    es = self.side.attr_sorts.get("ext:" + full + "[]")
                    if es:
                        f_ = self.elem_type_fact(gt, pt_, es)
                        if f_ is not None:
                            self.add_global_fact(f_)
                    return self.with_sort(gt, pt_)
                if attr in ("__module__", "__name__", "_name"):
                    # dunder of an external object (typing.Optional._name, Literal.__module__): an opaque string constant
                    return SV(z3.Const(f"G_{obj.py[1]}_{attr}".replace(".", "_"), z3.StringSort()), "str")
                return SV(None, "pyfunc", py=("name", f"{obj.py[1]}.{attr}"))
            if obj.py[0] == "super":
                return SV(None, "pyfunc", py=("supermethod", obj.py[1], attr))
            if obj.py[0] == "old":
                return obj.py[1][attr]
        if obj.pt == "class":
            return self.class_attr(obj, attr, st, fr, node)
        if obj.pt == "str" or obj.pt in ("list", "tuple", "set", "frozenset", "dict", "pylist", "pydict"):
            return SV(None, "pyfunc", py=("method", obj, attr))
        if obj.pt == "tlocal":
            # attribute of a threading.local(): defined only if this thread has assigned it
            d = self.tl_defined(obj, attr, st)
            self.may_raise(st, fr, "AttributeError", d, node, f"threadlocal.{attr}")
            return self.read_attr(obj, attr, st, fr)
        cls = self.static_class(obj)
        if attr == "__class__":
            return SV(v.clsobj(v.ty(self.box(obj))), "class")
        if cls is not None and cls not in self.repo.classes and ("method:" + attr) in self.side.assumed:
            return SV(None, "pyfunc", py=("extmethod", obj, attr))
        if cls is not None:
            for c_ in (self.repo.classes[cls].mro if cls in self.repo.classes else []):
                if f"{c_}.{attr}" in self.repo.classes:
                    return self.class_value(f"{c_}.{attr}")
            # property?
            m = self.repo.find_method(cls, attr)
            if m is not None:
                if "property" in m.decorators:
                    return self.call_function(m, [obj], {}, st, fr, node)
                return SV(None, "pyfunc", py=("bound", obj, m, attr))
            cc = self.repo.class_const(cls, attr)
            if cc is not None and not self.instance_assigns(cls, attr):
                return self.class_const_value(obj, cls, attr, st, fr, node)
            return self.read_attr(obj, attr, st, fr)
        if obj.pt == "any":
            if attr in ("__name__", "__module__", "__mro__"):
                return self.class_attr(SV(obj.t, "class"), attr, st, fr, node)
            root = self.unique_method_root(attr)
            if root is not None:
                return self.get_attr(SV(obj.t, "obj:" + root), attr, st, fr, node)
            proot = self.unique_property_root(attr)
            if proot is not None:
                return self.get_attr(SV(obj.t, "obj:" + proot), attr, st, fr, node)
            if attr in ("keys", "values", "items", "get"):
                self.typing_assumptions += 1          # receiver of a dict-only method is viewed as a dict
                return SV(None, "pyfunc", py=("method", SV(obj.t, "dict"), attr))
            # a name that is a @property in some classes and a plain attribute in others: dispatch on the run-time class
            res = self.read_attr(obj, attr, st, fr)
            for r in self.property_roots(attr):
                cond = self.voc.isinstance_(self.box(obj), r)
                got = self.under(st, cond, lambda r=r: self.get_attr(SV(obj.t, "obj:" + r), attr, st, fr, node))
                if got.t is None:
                    raise Untranslatable(f"attribute {attr} of a value of unknown class")
                res = self.ite(cond, got, res)
            return res
        if obj.pt == "none":
            self.may_raise(st, fr, "AttributeError", z3.BoolVal(False), node, "none-attr")
            return self.fresh_sv("undef")
        raise Untranslatable(f"attribute {attr} of {obj.pt}")

    def tl_defined(self, obj: SV, attr: str, st):
        arr = self.heap_get(st, "$def:" + attr)
        return self.voc.V2B(z3.Select(arr, self.box(obj)))

    def tl_get(self, obj: SV, attr: str, st, fr, default=None):
        v = self.voc
        val = z3.Select(self.heap_get(st, attr), self.box(obj))
        return SV(z3.If(self.tl_defined(obj, attr, st), val, default if default is not None else v.NONE), "any")

    def unique_method_root(self, attr: str):
        """the single most-basic repository class that defines method `attr` (duck-typed call on a value of unknown class)"""
        cache = self.__dict__.setdefault("_umr", {})
        if attr not in cache:
            definers = [c for c, ci in self.repo.classes.items() if "." not in c and attr in ci.methods and "property" not in ci.methods[attr].decorators]
            roots = [c for c in definers if not any(d != c and d in self.repo.classes[c].mro for d in definers)]
            cache[attr] = roots[0] if len(roots) == 1 else None
        return cache[attr]

    def property_roots(self, attr: str):
        definers = [c for c, ci in self.repo.classes.items() if "." not in c and attr in ci.methods and "property" in ci.methods[attr].decorators]
        return [c for c in definers if not any(d != c and d in self.repo.classes[c].mro for d in definers)]

    def unique_property_root(self, attr: str):
        """the single class defining @property `attr`, provided no class in the package also uses `attr` as a plain instance attribute"""
        cache = self.__dict__.setdefault("_upr", {})
        if attr not in cache:
            definers = [c for c, ci in self.repo.classes.items() if "." not in c and attr in ci.methods and "property" in ci.methods[attr].decorators]
            roots = [c for c in definers if not any(d != c and d in self.repo.classes[c].mro for d in definers)]
            plain = False
            for ci in self.repo.classes.values():
                for n in ast.walk(ci.node):
                    if isinstance(n, ast.Attribute) and isinstance(n.ctx, ast.Store) and n.attr == attr and isinstance(n.value, ast.Name) and n.value.id == "self":
                        cj = ci
                        if not any(attr in self.repo.classes[m].methods for m in cj.mro if m in self.repo.classes):
                            plain = True
            cache[attr] = roots[0] if len(roots) == 1 and not plain else None
        return cache[attr]

    def instance_assigns(self, cls: str, attr: str) -> bool:
        key = (cls, attr)
        cache = self.__dict__.setdefault("_inst_assign_cache", {})
        if key not in cache:
            found = False
            for c in self.repo.classes.get(cls).mro if cls in self.repo.classes else []:
                ci = self.repo.classes.get(c)
                if not ci:
                    continue
                for n in ast.walk(ci.node):
                    if isinstance(n, ast.Attribute) and isinstance(n.ctx, ast.Store) and n.attr == attr \
                            and isinstance(n.value, ast.Name) and n.value.id == "self":
                        found = True
            cache[key] = found
        return cache[key]

    def class_const_value(self, obj: SV, cls: str, attr: str, st, fr, node) -> SV:
        """self.CONST where CONST is class-level: dispatch over the dynamic class when subclasses override it"""
        options = []
        for sub in self.voc.subclasses_of(cls.replace(".", "__")):
            cc = self.repo.class_const(sub.replace("__", "."), attr)
            if cc is not None:
                options.append((sub, cc))
        distinct = {id(cc[1]) for _s, cc in options}
        owner_file = lambda c: self.repo.classes[c].file
        if len(distinct) == 1:
            owner, val = options[0][1]
            return self.eval_const_ast(val, owner, st, fr)
        res = None
        for sub, (owner, val) in options:
            x = self.eval_const_ast(val, owner, st, fr)
            cond = self.voc.ty(self.box(obj)) == self.voc.cls[sub]
            res = x if res is None else self.ite(cond, x, res)
        return res

    def eval_const_ast(self, val: ast.AST, owner_cls: str, st, fr) -> SV:
        ci = self.repo.classes[owner_cls]
        if isinstance(val, ast.Call) and ast.unparse(val.func) == "threading.local":
            tl = z3.Const(f"TL_{owner_cls.replace('.', '_')}_{val.lineno}", self.voc.Val)
            self.add_global_fact(self.voc.fn("born", self.voc.Val, z3.IntSort())(tl) == 0)
            return SV(tl, "tlocal")
        if isinstance(val, ast.Call) and isinstance(val.func, ast.Name) and val.func.id == "template":
            # jinja template objects are opaque: one constant per defining class and source position (text not modelled here)
            self.used_assumptions.add("jinja2 templates are opaque values; Template.render is a deterministic function of template and kwargs (audited by the bounded rendering stand-in)")
            return SV(z3.Const(f"TPL_{owner_cls}_{val.lineno}", self.voc.Val), "obj:Template")
        sub = Frame(fr.fi, None, owner_cls, kind=fr.kind)
        sub.fi = type("F", (), {"file": ci.file, "lineno": val.lineno if hasattr(val, "lineno") else 0, "key": ci.qual})()
        self.init_frame(sub)
        tmp = St(st.guards, st.facts, {}, st.heap, st.eff, st.epoch)
        # names of sibling class constants are visible
        for n, a in ci.consts.items():
            if a is not val and isinstance(a, ast.Constant):
                tmp.env[n] = self.ev(a, tmp, sub)
        r = self.ev(val, tmp, sub)
        st.facts[:] = tmp.facts
        return r

    def class_attr(self, clsv: SV, attr: str, st, fr, node) -> SV:
        v = self.voc
        name = clsv.py[1] if clsv.py and clsv.py[0] == "class" else None
        if attr == "__name__":
            if name is not None:
                return SV(z3.StringVal(name.split("__")[-1]), "str")
            f = v.fn("cls_name", v.Cls, z3.StringSort())
            self.ensure_cls_name_axioms()
            return SV(f(v.cls_of(clsv.t)), "str")
        if attr == "__module__":
            f = v.fn("cls_module", v.Cls, z3.StringSort())
            return SV(f(v.cls_of(clsv.t)), "str")
        if attr == "__mro__":
            return SV(self.mro_term(v.cls_of(clsv.t)), "tuple")
        if name is not None:
            key = name.replace("__", ".")
            if key in self.repo.classes:
                # nested class  (StringLiteral.TypeStyle)
                nested = f"{key}.{attr}"
                if nested in self.repo.classes:
                    return self.class_value(nested)
                m = self.repo.find_method(key, attr)
                if m is not None:
                    return SV(None, "pyfunc", py=("classmethod", clsv, m, attr))
                cc = self.repo.class_const(key, attr)
                if cc is not None:
                    return self.eval_const_ast(cc[1], cc[0], st, fr)
        # attribute of a symbolic class object: uninterpreted per-class function  (e.g. cls.actual_type)
        f = v.fn(f"clsattr_{attr}", v.Cls, v.Val)
        return self.with_sort(f(v.cls_of(clsv.t)), self.attr_sort(attr, fr))

    def ensure_cls_name_axioms(self):
        if getattr(self, "_cls_name_done", False):
            return
        self._cls_name_done = True
        v = self.voc
        f = v.fn("cls_name", v.Cls, z3.StringSort())
        for n, c in v.cls.items():
            self.global_facts.append(f(c) == z3.StringVal(n.split("__")[-1]))

    # ------------------------------------------------------------------ subscript
    def ev_Subscript(self, node, st, fr):
        obj = self.ev(node.value, st, fr)
        v = self.voc
        if isinstance(node.slice, ast.Slice):
            return self.slice_(obj, node.slice, st, fr, node)
        if obj.pt == "pyfunc" and obj.py[0] == "old":
            key = ast.literal_eval(node.slice)
            return obj.py[1][key]
        idx = self.ev(node.slice, st, fr)
        if obj.pt == "pydict":
            for k, val in obj.py[1]:
                if self.same_const(k, idx):
                    return val
            raise Untranslatable("python-level dict lookup with symbolic key")
        if obj.pt in ("pylist",) or (obj.pt in ("tuple", "list") and obj.py and obj.py[0] == "items"):
            i = z3.simplify(self.unbox(idx, "int").t)
            if z3.is_int_value(i):
                items = self.py_items(obj)
                k = i.as_long()
                if -len(items) <= k < len(items):
                    return items[k]
            if obj.pt == "pylist" or (obj.py and obj.py[0] == "items" and len(obj.py[1]) <= 16 and all(x.pt in NATIVE for x in obj.py[1])):
                items = self.py_items(obj)
                self.may_raise(st, fr, "IndexError", z3.And(i >= 0, i < len(items)), node, "index")
                res = items[-1]
                for k in range(len(items) - 2, -1, -1):
                    res = self.ite(i == k, items[k], res)
                return res
        if obj.pt == "dict" and obj.py and obj.py[0] == "defaultdict":
            k = self.box(idx)
            dflt = {"int": v.I2V(z3.IntVal(0)), "set": v.sempty, "list": v.snil}[obj.py[1]]
            return self.with_sort(z3.If(v.dhas(obj.t, k), v.dget(obj.t, k), dflt), {"int": "int", "set": "set", "list": "list"}[obj.py[1]])
        if obj.pt == "dict":
            k = self.box(idx)
            self.may_raise(st, fr, "KeyError", v.dhas(obj.t, k), node, "getitem")
            return self.with_sort(v.dget(obj.t, k), self.elem_sort(node.value, fr))
        if obj.pt in ("list", "tuple"):
            i = self.unbox(idx, "int").t
            n = v.slen(obj.t)
            self.may_raise(st, fr, "IndexError", z3.And(i >= -n, i < n), node, "index")
            isimp = z3.simplify(i)
            if fr.kind == "spec" or (z3.is_int_value(isimp) and isimp.as_long() >= 0):
                pos = i      # spec clauses index with non-negative positions only
            elif z3.is_int_value(isimp):
                pos = i + n
            else:
                pos = z3.If(i < 0, i + n, i)
            return self.with_sort(v.sat(obj.t, pos), self.elem_sort(node.value, fr))
        if obj.pt == "str":
            i = self.unbox(idx, "int").t
            n = z3.Length(obj.t)
            self.may_raise(st, fr, "IndexError", z3.And(i >= -n, i < n), node, "str-index")
            return SV(z3.SubString(obj.t, z3.If(i < 0, i + n, i), 1), "str")
        if obj.pt == "any":
            # d[k] on an unknown container: KeyError/TypeError/IndexError possible unless declared
            k = self.box(idx)
            f = v.fn("getitem", v.Val, v.Val, v.Val)
            ok = v.fn("getitem_ok", v.Val, v.Val, z3.BoolSort())
            is_seq = z3.Or(v.isinstance_(obj.t, "list"), v.isinstance_(obj.t, "tuple"))
            is_dict = v.isinstance_(obj.t, "dict")
            if idx.pt == "int":
                n = v.slen(obj.t)
                pos = z3.If(idx.t < 0, idx.t + n, idx.t)
                if z3.is_int_value(z3.simplify(idx.t)) and z3.simplify(idx.t).as_long() >= 0:
                    pos = idx.t
                defined = z3.If(is_seq, z3.And(idx.t >= -n, idx.t < n), z3.If(is_dict, v.dhas(obj.t, k), ok(obj.t, k)))
                val = z3.If(is_seq, v.sat(obj.t, pos), z3.If(is_dict, v.dget(obj.t, k), f(obj.t, k)))
            else:
                defined = z3.If(is_dict, v.dhas(obj.t, k), ok(obj.t, k))
                val = z3.If(is_dict, v.dget(obj.t, k), f(obj.t, k))
            self.may_raise(st, fr, "KeyError", defined, node, "getitem-any")
            return SV(val, "any")
        raise Untranslatable(f"subscript of {obj.pt}")

    def elem_sort(self, container_node, fr):
        """declared element sort of a container expression (by attribute / variable name + '[]')"""
        name = None
        # see through copies / reorderings: xs[:], list(xs), tuple(xs), sorted(xs), set(xs), reversed(xs)
        while True:
            if isinstance(container_node, ast.Subscript) and isinstance(container_node.slice, ast.Slice):
                container_node = container_node.value
            elif isinstance(container_node, ast.Call) and isinstance(container_node.func, ast.Name) and len(container_node.args) == 1 \
                    and container_node.func.id in ("list", "tuple", "sorted", "set", "frozenset", "reversed", "iter"):
                container_node = container_node.args[0]
            else:
                break
        if isinstance(container_node, ast.Attribute):
            name = container_node.attr
        elif isinstance(container_node, ast.Name):
            name = container_node.id
        if name:
            s = self.attr_sort(name + "[]", fr)
            return s
        return "any"

    def slice_(self, obj, sl, st, fr, node):
        v = self.voc
        lo = self.unbox(self.ev(sl.lower, st, fr), "int").t if sl.lower is not None else None
        hi = self.unbox(self.ev(sl.upper, st, fr), "int").t if sl.upper is not None else None
        if sl.step is not None:
            raise Untranslatable("slice step")
        if obj.pt == "str":
            n = z3.Length(obj.t)
            norm = lambda x: z3.If(x < 0, z3.If(x + n < 0, 0, x + n), z3.If(x > n, n, x))
            a = norm(lo) if lo is not None else z3.IntVal(0)
            b = norm(hi) if hi is not None else n
            return SV(z3.SubString(obj.t, a, z3.If(b - a < 0, 0, b - a)), "str")
        if obj.pt in ("list", "tuple"):
            n = v.slen(obj.t)
            if lo is None and hi is None:
                return obj
            norm = lambda x: z3.If(x < 0, z3.If(x + n < 0, 0, x + n), z3.If(x > n, n, x))
            a = z3.simplify(norm(lo)) if lo is not None else z3.IntVal(0)
            b = z3.simplify(norm(hi)) if hi is not None else n
            f = v.fn("sslice", v.Val, z3.IntSort(), z3.IntSort(), v.Val)
            if not getattr(self, "_slice_done", False):
                self._slice_done = True
                s_, j_ = self.bv("sls"), self.bv("slj", z3.IntSort())
                a_, b_ = self.bv("sla", z3.IntSort()), self.bv("slb", z3.IntSort())
                self.global_facts += [
                    z3.ForAll([s_, a_, b_], z3.And(v.slen(f(s_, a_, b_)) == z3.If(b_ - a_ < 0, 0, b_ - a_),
                                                   v.ty(f(s_, a_, b_)) == z3.If(v.ty(s_) == v.cls["tuple"], v.cls["tuple"], v.cls["list"])),
                              patterns=[f(s_, a_, b_)]),
                    z3.ForAll([s_, a_, b_, j_], z3.Implies(z3.And(0 <= j_, j_ < b_ - a_), v.sat(f(s_, a_, b_), j_) == v.sat(s_, a_ + j_)),
                              patterns=[v.sat(f(s_, a_, b_), j_)]),
                ]
            r = f(obj.t, a, b)
            return SV(r, obj.pt)
        raise Untranslatable(f"slice of {obj.pt}")

    # ------------------------------------------------------------------ comprehensions
    def ev_ListComp(self, node, st, fr):
        return self.comprehension(node, st, fr, "list")

    def ev_GeneratorExp(self, node, st, fr):
        return self.comprehension(node, st, fr, "list")

    def ev_SetComp(self, node, st, fr):
        r = self.comprehension(node, st, fr, "list")
        return SV(self.voc.set_of_seq(r.t), "set")

    def ev_DictComp(self, node, st, fr):
        """{k: f(k, v) for k, v in d.items()}  (keys unchanged, no filter): a fresh dict with the same keys in the same order"""
        v = self.voc
        if len(node.generators) != 1 or node.generators[0].ifs:
            raise Untranslatable("dict comprehension with filter / several generators")
        g = node.generators[0]
        src = self.ev(g.iter, st, fr)
        if src.pt != "ditems" or not (isinstance(g.target, ast.Tuple) and len(g.target.elts) == 2 and isinstance(g.target.elts[0], ast.Name)
                                      and isinstance(node.key, ast.Name) and node.key.id == g.target.elts[0].id):
            raise Untranslatable("dict comprehension not of the form {k: e for k, v in d.items()}")
        d = src.py[1]
        k0 = self.fresh("dkey")
        saved_env = dict(st.env)
        n_f = len(st.facts)
        st.facts.append(v.dhas(d.t, k0))
        self.bind_target(g.target.elts[0], SV(k0, "any"), st, fr)
        self.bind_target(g.target.elts[1], SV(v.dget(d.t, k0), "any"), st, fr)
        fr.in_comp = getattr(fr, "in_comp", 0) + 1
        try:
            val = self.ev(node.value, st, fr)
        finally:
            fr.in_comp -= 1
        body_facts = st.facts[n_f + 1:]
        del st.facts[n_f:]
        st.env = saved_env
        R = self.fresh("dcomp")
        kk = self.bv("dk")
        sub = lambda f: z3.substitute(f, (k0, kk))
        st.facts.append(v.ty(R) == v.cls["dict"])
        st.facts.append(v.dkeys(R) == v.dkeys(d.t))
        st.facts.append(v.dlen(R) == v.dlen(d.t))
        st.facts.append(z3.ForAll([kk], v.dhas(R, kk) == v.dhas(d.t, kk), patterns=[v.dhas(R, kk), v.dhas(d.t, kk)]))
        st.facts.append(z3.ForAll([kk], z3.Implies(v.dhas(d.t, kk), z3.And([v.dget(R, kk) == sub(self.box(val))] + [sub(f) for f in body_facts])),
                                  patterns=[v.dget(R, kk), v.dget(d.t, kk)]))
        return SV(R, "dict")

    def comprehension(self, node, st, fr, pt):
        """[f(x) for x in xs (if p(x))]  ->  fresh list R with its strongest automatic invariant."""
        v = self.voc
        if len(node.generators) != 1:
            raise Untranslatable("nested comprehension")
        g = node.generators[0]
        src = self.ev(g.iter, st, fr)
        if src.pt in ("pylist",) or (src.py and src.py[0] == "items" and src.pt in ("tuple", "pylist")):
            # small python-level iteration: unroll
            items = []
            for it in self.py_items(src):
                s2env = dict(st.env)
                self.bind_target(g.target, it, st, fr)
                ok = [self.evb(c, st, fr) for c in g.ifs]
                if ok:
                    raise Untranslatable("filtered comprehension over python-level list")
                items.append(self.ev(node.elt, st, fr))
                st.env = s2env
            cur = v.snil
            for it in items:
                cur = v.sapp(cur, self.box(it))
            return SV(cur, "list", py=("items", items))
        seq = self.as_seq(src, st, fr, g.iter)
        seq = SV(self.named(seq.t, st), seq.pt, seq.py)
        esort = self.elem_sort(g.iter, fr)
        e = self.fresh("elem")
        j0 = self.fresh("j", z3.IntSort())
        saved_env = dict(st.env)
        n_f = len(st.facts)
        st.facts.append(z3.And(0 <= j0, j0 < v.slen(seq.t), e == v.sat(seq.t, j0)))
        elem = self.with_sort(e, esort)
        if src.pt == "dict" and False:
            pass
        self.bind_target(g.target, elem, st, fr, container=src)
        fr.in_comp = getattr(fr, "in_comp", 0) + 1
        fr.comp_index = getattr(fr, "comp_index", []) + [j0]
        outer_mod = getattr(fr, "comp_modified", None)
        fr.comp_modified = set()
        heap_before = dict(st.heap)
        try:
            conds = [self.evb(c, st, fr) for c in g.ifs]
            cond = z3.And(conds) if conds else z3.BoolVal(True)
            val = self.under(st, cond, lambda: self.ev(node.elt, st, fr)) if conds else self.ev(node.elt, st, fr)
        finally:
            fr.in_comp -= 1
            fr.comp_index = fr.comp_index[:-1]
        modified_here = fr.comp_modified
        fr.comp_modified = outer_mod if outer_mod is not None else set()
        fr.comp_modified |= modified_here
        # after the whole comprehension the attributes touched by its calls hold unknown values
        st.heap = heap_before
        for attr in modified_here:
            st.heap[attr] = self.fresh(f"H_{attr}", z3.ArraySort(v.Val, v.Val))
        body_facts = st.facts[n_f + 1:]
        del st.facts[n_f:]
        st.env = saved_env
        canon = z3.Const("canon_e", v.Val)
        canon_j = z3.Int("canon_j")
        cval = z3.substitute(self.box(val), (e, canon), (j0, canon_j))
        ccond = z3.substitute(cond, (e, canon), (j0, canon_j))
        ckey = (seq.t.get_id(), cval.get_id(), ccond.get_id())
        cache = self.__dict__.setdefault("_comp_cache", {})
        hit = cache.get(ckey)
        if hit is None:
            R = self.fresh("comp")
            cache[ckey] = (R, seq.t, cval, ccond)      # the ASTs are kept alive so that their ids stay unique
        else:
            R = hit[0]
        j = self.bv("cj", z3.IntSort())
        sub = lambda f: z3.substitute(f, (e, v.sat(seq.t, j)), (j0, j))
        st.facts.append(v.ty(R) == v.cls["list"])
        rpt = val.pt if val.pt in NATIVE else "any"
        if not conds:
            st.facts.append(v.slen(R) == v.slen(seq.t))
            body = [v.sat(R, j) == sub(self.box(val))] + [sub(f) for f in body_facts]
            st.facts.append(z3.ForAll([j], z3.Implies(z3.And(0 <= j, j < v.slen(seq.t)), z3.And(body)),
                                      patterns=[v.sat(R, j), v.sat(seq.t, j)]))
            self.comp_info[R.get_id()] = ("map", seq, e, j0, val, cond, body_facts)
        else:
            # filtered: membership characterisation + length bound (order preserved but not needed so far)
            x = self.bv("cx")
            wit = v.fn(f"compwit!{R}", v.Val, z3.IntSort())
            st.facts.append(v.slen(R) <= v.slen(seq.t))
            st.facts.append(z3.ForAll([j], z3.Implies(z3.And(0 <= j, j < v.slen(seq.t), sub(cond)),
                                                      z3.And([v.shas(R, sub(self.box(val)))] + [sub(f) for f in body_facts])),
                                      patterns=[v.sat(seq.t, j)]))
            st.facts.append(z3.ForAll([x], z3.Implies(v.shas(R, x), z3.And(0 <= wit(x), wit(x) < v.slen(seq.t),
                                                                          z3.substitute(z3.And(cond, x == self.box(val)), (e, v.sat(seq.t, wit(x))), (j0, wit(x))))),
                                      patterns=[v.shas(R, x)]))
            # index-based view: every position of the result comes from a position of the source that passed the filter (order kept)
            widx = v.fn(f"compidx!{R}", z3.IntSort(), z3.IntSort())
            kk = self.bv("ck", z3.IntSort())
            st.facts.append(z3.ForAll([kk], z3.Implies(z3.And(0 <= kk, kk < v.slen(R)), z3.And(
                0 <= widx(kk), widx(kk) < v.slen(seq.t),
                z3.substitute(z3.And(cond, v.sat(R, kk) == self.box(val)), (e, v.sat(seq.t, widx(kk))), (j0, widx(kk))))), patterns=[v.sat(R, kk)]))
            self.comp_info[R.get_id()] = ("filter", seq, e, j0, val, cond, body_facts)
        out = SV(R, "list")
        out.py = ("comp", seq, e, j0, val, cond, body_facts, rpt)
        return out

    def bind_target(self, target, val: SV, st, fr, container=None):
        if isinstance(target, ast.Name):
            if val.pt == "any" and val.t is not None and fr.contract is not None and fr.kind != "spec" \
                    and target.id in getattr(fr.contract, "sorts", {}):
                val = self.with_sort(val.t, fr.contract.sorts[target.id])
            st.env[target.id] = val
            return
        if isinstance(target, (ast.Tuple, ast.List)):
            n = len(target.elts)
            if any(isinstance(e, ast.Starred) for e in target.elts):
                # token, *path = path
                k = [isinstance(e, ast.Starred) for e in target.elts].index(True)
                if k != n - 1:
                    raise Untranslatable("starred target not last")
                seq = self.as_seq(val, st, fr, target)
                v = self.voc
                self.may_raise(st, fr, "ValueError", v.slen(seq.t) >= n - 1, target, "unpack")
                for i, e in enumerate(target.elts[:-1]):
                    self.bind_target(e, self.with_sort(v.sat(seq.t, z3.IntVal(i)), self.elem_sort(target, fr)), st, fr)
                rest = self.slice_(SV(seq.t, "list"), ast.Slice(lower=ast.Constant(n - 1), upper=None, step=None), st, fr, target)
                self.bind_target(target.elts[-1].value, rest, st, fr)
                return
            if val.py and val.py[0] == "items" and len(val.py[1]) == n:
                for e, x in zip(target.elts, val.py[1]):
                    self.bind_target(e, x, st, fr)
                return
            if val.py and val.py[0] == "pair":
                for e, x in zip(target.elts, val.py[1]):
                    self.bind_target(e, x, st, fr)
                return
            v = self.voc
            seq = val if val.pt in ("list", "tuple") else SV(self.box(val), "tuple")
            self.may_raise(st, fr, "ValueError", v.slen(seq.t) == n, target, "unpack")
            for i, e in enumerate(target.elts):
                self.bind_target(e, SV(v.sat(seq.t, z3.IntVal(i)), "any"), st, fr)
            return
        raise Untranslatable(f"binding target {type(target).__name__}")

    def ev_Lambda(self, node, st, fr):
        return SV(None, "pyfunc", py=("lambda", node, dict(st.env)))

    def ev_Starred(self, node, st, fr):
        raise Untranslatable("starred expression outside a display/call")
