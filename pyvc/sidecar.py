"""Symbolic-side reader of the sidecar contract files (pure `ast`, the modules are not imported here)."""
import ast
import os
from dataclasses import dataclass, field
from typing import Dict, List, Optional, Tuple

HERE = os.path.dirname(os.path.dirname(os.path.abspath(__file__)))


@dataclass
class Clause:
    name: str
    expr: ast.AST
    lets: List[ast.Assign]
    params: List[str]
    props: Optional[List[str]] = None      # per-clause property tags (None = contract's props)


@dataclass
class ContractAst:
    key: str
    props: List[str]
    opts: Dict[str, object]
    sorts: Dict[str, str] = field(default_factory=dict)
    modifies: List[str] = field(default_factory=list)
    requires: List[Clause] = field(default_factory=list)
    ensures: List[Clause] = field(default_factory=list)
    raises: List[Clause] = field(default_factory=list)         # name = exception class; expr = condition under which allowed
    snapshot: List[Clause] = field(default_factory=list)
    ensures_exc: List[Clause] = field(default_factory=list)
    assumed: bool = False
    file: str = ""
    lineno: int = 0


@dataclass
class LoopAst:
    key: str
    ordinal: int
    params: List[str]
    clauses: List[Clause]
    file: str = ""


def _clauses(fn: ast.FunctionDef) -> List[Clause]:
    params = [a.arg for a in fn.args.args]
    lets = []
    out = []
    for st in fn.body:
        if isinstance(st, ast.Expr) and isinstance(st.value, ast.Constant):
            continue
        if isinstance(st, ast.Assign):
            lets.append(st)
        elif isinstance(st, ast.Return):
            v = st.value
            if isinstance(v, ast.Dict):
                for k, e in zip(v.keys, v.values):
                    name = k.value if isinstance(k, ast.Constant) else ast.unparse(k)
                    props = None
                    # "name@C01,C02" tags a clause with properties
                    if isinstance(name, str) and "@" in name:
                        name, tags = name.split("@", 1)
                        props = tags.split(",")
                    out.append(Clause(str(name), e, list(lets), params, props))
            elif isinstance(v, (ast.List, ast.Tuple)) and all(isinstance(e, ast.Tuple) and len(e.elts) == 2 for e in v.elts):
                for e in v.elts:
                    out.append(Clause(e.elts[0].value, e.elts[1], list(lets), params))
            else:
                out.append(Clause(fn.name, v, list(lets), params))
        else:
            raise SyntaxError(f"unsupported statement in clause {fn.name}: {ast.unparse(st)}")
    return out


class Sidecars:
    def __init__(self, directory: str = None):
        self.dir = directory or os.path.join(HERE, "contracts")
        self.contracts: Dict[str, ContractAst] = {}
        self.assumed: Dict[str, ContractAst] = {}
        self.loops: Dict[Tuple[str, int], LoopAst] = {}
        self.attr_sorts: Dict[str, str] = {}
        self.written_only_in = []     # (attribute, function key prefix): the attribute is assigned nowhere else in the package
        self.write_once = set()       # attributes assigned only by the constructor of their own object (obligation write-once@<attr>)
        self.specs: Dict[str, ast.FunctionDef] = {}
        self.specs_rec: Dict[str, ast.FunctionDef] = {}
        self.elem_preds: Dict[str, ast.FunctionDef] = {}
        self.lemmas: Dict[str, list] = {}          # function key -> [(after-text, LoopAst-like clauses holder)]
        self.sources: Dict[str, str] = {}
        for fn in sorted(os.listdir(self.dir)):
            if fn.endswith(".py") and not fn.startswith("_"):
                self._load(os.path.join(self.dir, fn))

    def _load(self, path):
        src = open(path, encoding="utf-8").read()
        self.sources[path] = src
        tree = ast.parse(src)
        self._consts = {}
        for node in tree.body:
            if isinstance(node, ast.Assign) and len(node.targets) == 1 and isinstance(node.targets[0], ast.Name):
                try:
                    self._consts[node.targets[0].id] = self._const(node.value)
                except Exception:
                    pass
        for node in tree.body:
            if isinstance(node, ast.ClassDef):
                for d in node.decorator_list:
                    if isinstance(d, ast.Call) and isinstance(d.func, ast.Name) and d.func.id in ("contract", "assumed"):
                        self._contract(node, d, path)
            elif isinstance(node, ast.FunctionDef):
                if any(isinstance(d, ast.Name) and d.id == "spec" for d in node.decorator_list):
                    self.specs[node.name] = node
                if any(isinstance(d, ast.Name) and d.id == "specrec" for d in node.decorator_list):
                    self.specs_rec[node.name] = node
                if any(isinstance(d, ast.Name) and d.id == "elempred" for d in node.decorator_list):
                    self.elem_preds[node.name] = node
                for d in node.decorator_list:
                    if isinstance(d, ast.Call) and isinstance(d.func, ast.Name) and d.func.id == "lemma":
                        key = self._const(d.args[0])
                        after = None
                        forget = []
                        only = False
                        for kw in d.keywords:
                            if kw.arg == "after":
                                after = ast.literal_eval(kw.value)
                            elif kw.arg == "forget":
                                forget = ast.literal_eval(kw.value)
                            elif kw.arg == "only":
                                only = ast.literal_eval(kw.value)
                        holder = LoopAst(key, -1, [a.arg for a in node.args.args], _clauses(node), path)
                        holder.forget = forget
                        holder.only = only
                        self.lemmas.setdefault(key, []).append((after, holder, node.name))
                for d in node.decorator_list:
                    if isinstance(d, ast.Call) and isinstance(d.func, ast.Name) and d.func.id == "loop":
                        key = self._const(d.args[0])
                        ordinal = ast.literal_eval(d.args[1])
                        self.loops[(key, ordinal)] = LoopAst(key, ordinal, [a.arg for a in node.args.args], _clauses(node), path)
            elif isinstance(node, ast.Expr) and isinstance(node.value, ast.Call) and isinstance(node.value.func, ast.Name) \
                    and node.value.func.id == "sorts":
                for kw in node.value.keywords:
                    if kw.arg is None:
                        self.attr_sorts.update(ast.literal_eval(kw.value))
                    else:
                        self.attr_sorts[kw.arg] = ast.literal_eval(kw.value)
            elif isinstance(node, ast.Expr) and isinstance(node.value, ast.Call) and isinstance(node.value.func, ast.Name) \
                    and node.value.func.id == "written_only_in":
                self.written_only_in.append((ast.literal_eval(node.value.args[0]), ast.literal_eval(node.value.args[1])))
            elif isinstance(node, ast.Expr) and isinstance(node.value, ast.Call) and isinstance(node.value.func, ast.Name) \
                    and node.value.func.id == "write_once":
                self.write_once |= {ast.literal_eval(a) for a in node.value.args}

    def _const(self, e):
        if isinstance(e, ast.Constant):
            return e.value
        if isinstance(e, ast.Name):
            return self._consts[e.id]
        if isinstance(e, ast.BinOp) and isinstance(e.op, ast.Add):
            return self._const(e.left) + self._const(e.right)
        return ast.literal_eval(e)

    def _contract(self, node: ast.ClassDef, d: ast.Call, path: str):
        key = self._const(d.args[0])
        props, opts = [], {}
        for kw in d.keywords:
            if kw.arg == "props":
                props = ast.literal_eval(kw.value)
            else:
                opts[kw.arg] = ast.literal_eval(kw.value)
        c = ContractAst(key=key, props=props, opts=opts, assumed=(d.func.id == "assumed"), file=path, lineno=node.lineno)
        for sub in node.body:
            if isinstance(sub, ast.Assign) and isinstance(sub.targets[0], ast.Name):
                n = sub.targets[0].id
                if n == "sorts":
                    if isinstance(sub.value, ast.Call):
                        c.sorts = {kw.arg: ast.literal_eval(kw.value) for kw in sub.value.keywords}
                    else:
                        c.sorts = ast.literal_eval(sub.value)
                elif n == "modifies":
                    c.modifies = ast.literal_eval(sub.value)
                else:
                    opts[n] = ast.literal_eval(sub.value)
            elif isinstance(sub, ast.FunctionDef):
                if sub.name == "requires":
                    c.requires = _clauses(sub)
                elif sub.name == "ensures":
                    c.ensures = _clauses(sub)
                elif sub.name == "raises":
                    c.raises = _clauses(sub)
                elif sub.name == "snapshot":
                    c.snapshot = _clauses(sub)
                elif sub.name == "ensures_exc":
                    c.ensures_exc = _clauses(sub)
        if c.assumed:
            self.assumed[key] = c
        else:
            self.contracts[key] = c
