"""SMT vocabulary (Boogie style: one universal value sort, uninterpreted functions, triggered axioms)
and the solver back ends.

Everything here is code-independent: it is the *prelude* of DESIGN.md section 2.4 / Appendix D.
Axioms are textbook facts about finite lists / sets / maps and about Python's boxing of scalars.
"""
import os
import subprocess
import tempfile
import time
from typing import Dict, List

import z3

BUILTIN_CLASSES = [
    "object", "int", "float", "bool", "str", "list", "dict", "set", "frozenset", "tuple", "PyNone", "type",
    "function", "ellipsis", "OrderedSet", "defaultdict", "Pattern", "module", "date", "datetime", "time",
    "Exception", "ValueError", "TypeError", "KeyError", "IndexError", "AttributeError", "ZeroDivisionError",
    "RuntimeError", "NotImplementedError", "ImportError", "StopIteration", "OSError", "AnyError",
]
BUILTIN_BASES = {
    "bool": ["int"], "frozenset": [], "OrderedSet": [], "defaultdict": ["dict"], "datetime": ["date"],
    "ValueError": ["Exception"], "TypeError": ["Exception"], "KeyError": ["Exception"], "IndexError": ["Exception"],
    "AttributeError": ["Exception"], "ZeroDivisionError": ["Exception"], "RuntimeError": ["Exception"],
    "NotImplementedError": ["RuntimeError", "Exception"], "ImportError": ["Exception"],
    "StopIteration": ["Exception"], "OSError": ["Exception"], "AnyError": ["Exception"],
}


class Voc:
    """All sorts / function symbols / axioms for one verification run."""

    def __init__(self, repo):
        self.repo = repo
        names = list(BUILTIN_CLASSES)
        for c in repo.classes:
            short = c.replace(".", "__")
            if short not in names:
                names.append(short)
        self.class_names = names
        self.Val = z3.DeclareSort("Val")
        self.Cls, consts = z3.EnumSort("Cls", ["C_" + n for n in names])
        self.cls = dict(zip(names, consts))
        V, C = self.Val, self.Cls
        I, B, R, S = z3.IntSort(), z3.BoolSort(), z3.RealSort(), z3.StringSort()
        F = z3.Function
        self.ty = F("ty", V, C)
        self.I2V, self.V2I = F("I2V", I, V), F("V2I", V, I)
        self.B2V, self.V2B = F("B2V", B, V), F("V2B", V, B)
        self.R2V, self.V2R = F("R2V", R, V), F("V2R", V, R)
        self.S2V, self.V2S = F("S2V", S, V), F("V2S", V, S)
        self.NONE = z3.Const("PyNoneV", V)
        self.ELLIPSIS = z3.Const("EllipsisV", V)
        self.clsobj, self.cls_of = F("clsobj", C, V), F("cls_of", V, C)
        self.truthy = F("truthy", V, B)
        self.pyeq = F("pyeq", V, V, B)
        self.pystr = F("pystr", V, S)
        # sequences (list / tuple)
        self.slen, self.sat = F("slen", V, I), F("sat", V, I, V)
        self.sapp = F("sapp", V, V, V)
        self.snil = z3.Const("snil", V)
        self.tnil = z3.Const("tnil", V)
        self.shas = F("shas", V, V, B)            # python `x in list`
        self.sidx = F("sidx", V, V, I)            # witness index of membership
        self.sconcat = F("sconcat", V, V, V)
        self.distinct = F("nodup", V, B)       # list without two == elements
        self.lsubset = F("lsubset", V, V, B)      # every member (python `in`) of list a is a member of list b
        self.sk_lsub = F("sk_lsub", V, V, V)
        self.lsubset_ex = F("lsubset_ex", V, V, V, B)   # ... except possibly the element x
        self.sk_lsubx = F("sk_lsubx", V, V, V, V)
        # sets
        self.has = F("has", V, V, B)
        self.card = F("card", V, I)
        self.sempty = z3.Const("sempty", V)
        self.sadd, self.sdel = F("sadd", V, V, V), F("sdel", V, V, V)
        self.sunion, self.sinter, self.sdiff = F("sunion", V, V, V), F("sinter", V, V, V), F("sdiff", V, V, V)
        self.set_of_seq = F("set_of_seq", V, V)
        self.sorder = F("sorder", V, I, V)        # iteration order of a set, indexed by iteration site
        self.sk_sub = F("sk_sub", V, V, V)        # witness of non-subset / non-equality
        self.subset = F("subset", V, V, B)
        self.disjoint = F("disjoint", V, V, B)
        self.sk_dis = F("sk_dis", V, V, V)
        self.sany = F("sany", V, V)               # some member of a non-empty set
        # dicts
        self.dhas, self.dget = F("dhas", V, V, B), F("dget", V, V, V)
        self.dset, self.ddel = F("dset", V, V, V, V), F("ddel", V, V, V)
        self.dempty = z3.Const("dempty", V)
        self.dkeys = F("dkeys", V, V)             # list of keys in insertion order
        self.dlen = F("dlen", V, I)
        self.axioms: List[z3.BoolRef] = []
        self.extra_funcs: Dict[str, z3.FuncDeclRef] = {}
        self._prelude()

    # ------------------------------------------------------------------ helpers
    def fn(self, name, *sorts):
        if name not in self.extra_funcs:
            self.extra_funcs[name] = z3.Function(name, *sorts)
        return self.extra_funcs[name]

    def subclasses_of(self, name: str) -> List[str]:
        out = []
        for c in self.class_names:
            if c == name:
                out.append(c)
                continue
            if c in BUILTIN_CLASSES:
                if name in self._builtin_mro(c):
                    out.append(c)
            else:
                ci = self.repo.classes.get(c.replace("__", "."))
                if ci and name in ci.mro:
                    out.append(c)
        if name == "object":
            return list(self.class_names)
        return out

    def _builtin_mro(self, c):
        res, todo = [], [c]
        while todo:
            x = todo.pop()
            if x not in res:
                res.append(x)
                todo.extend(BUILTIN_BASES.get(x, []))
        return res

    def isinstance_(self, v, name: str):
        subs = self.subclasses_of(name)
        if not subs:
            return z3.BoolVal(False)
        return z3.Or([self.ty(v) == self.cls[s] for s in subs])

    # ------------------------------------------------------------------ prelude
    def _prelude(self):
        V = self.Val
        A = self.axioms
        x, y, z, s, s2, d, k, k2, e = z3.Consts("x y z s s2 d k k2 e", V)
        i, j = z3.Ints("i j")
        b = z3.Bool("b")
        r = z3.Real("r")
        st = z3.String("st")
        st2 = z3.String("st2")
        c = z3.Const("c", self.Cls)
        FA = z3.ForAll

        # boxing
        A += [
            FA([i], z3.And(self.V2I(self.I2V(i)) == i, self.ty(self.I2V(i)) == self.cls["int"]), patterns=[self.I2V(i)]),
            FA([x], z3.Implies(self.ty(x) == self.cls["int"], self.I2V(self.V2I(x)) == x), patterns=[self.V2I(x)]),
            FA([b], z3.And(self.V2B(self.B2V(b)) == b, self.ty(self.B2V(b)) == self.cls["bool"]), patterns=[self.B2V(b)]),
            FA([x], z3.Implies(self.ty(x) == self.cls["bool"], self.B2V(self.V2B(x)) == x), patterns=[self.V2B(x)]),
            FA([r], z3.And(self.V2R(self.R2V(r)) == r, self.ty(self.R2V(r)) == self.cls["float"]), patterns=[self.R2V(r)]),
            FA([st], z3.And(self.V2S(self.S2V(st)) == st, self.ty(self.S2V(st)) == self.cls["str"]), patterns=[self.S2V(st)]),
            FA([x], z3.Implies(self.ty(x) == self.cls["str"], self.S2V(self.V2S(x)) == x), patterns=[self.V2S(x)]),
            self.ty(self.NONE) == self.cls["PyNone"],
            FA([x], z3.Implies(self.ty(x) == self.cls["PyNone"], x == self.NONE), patterns=[self.ty(x)]),
            self.ty(self.ELLIPSIS) == self.cls["ellipsis"],
            FA([c], z3.And(self.cls_of(self.clsobj(c)) == c, self.ty(self.clsobj(c)) == self.cls["type"]), patterns=[self.clsobj(c)]),
            FA([x], z3.Implies(self.ty(x) == self.cls["type"], self.clsobj(self.cls_of(x)) == x), patterns=[self.cls_of(x)]),
        ]
        # truthiness
        A += [
            z3.Not(self.truthy(self.NONE)),
            FA([b], self.truthy(self.B2V(b)) == b, patterns=[self.truthy(self.B2V(b))]),
            FA([i], self.truthy(self.I2V(i)) == (i != 0), patterns=[self.truthy(self.I2V(i))]),
            FA([st], self.truthy(self.S2V(st)) == (z3.Length(st) > 0), patterns=[self.truthy(self.S2V(st))]),
            FA([x], z3.Implies(self.ty(x) == self.cls["str"], self.truthy(x) == (z3.Length(self.V2S(x)) > 0)), patterns=[self.truthy(x)]),
            FA([x], z3.Implies(self.ty(x) == self.cls["bool"], self.truthy(x) == self.V2B(x)), patterns=[self.truthy(x)]),
            FA([x], z3.Implies(self.ty(x) == self.cls["int"], self.truthy(x) == (self.V2I(x) != 0)), patterns=[self.truthy(x)]),
            FA([x], z3.Implies(z3.Or(self.ty(x) == self.cls["list"], self.ty(x) == self.cls["tuple"]),
                               self.truthy(x) == (self.slen(x) > 0)), patterns=[self.truthy(x)]),
            FA([x], z3.Implies(z3.Or(self.ty(x) == self.cls["set"], self.ty(x) == self.cls["frozenset"]),
                               self.truthy(x) == (self.card(x) > 0)), patterns=[self.truthy(x)]),
            FA([x], z3.Implies(self.isinstance_(x, "dict"), self.truthy(x) == (self.dlen(x) > 0)), patterns=[self.truthy(x)]),
            FA([x], z3.Implies(self.ty(x) == self.cls["type"], self.truthy(x)), patterns=[self.truthy(x)]),
        ]
        # python == : reflexive, symmetric, structural on boxed scalars, identity on classes / None
        A += [
            FA([x], self.pyeq(x, x), patterns=[self.pyeq(x, x)]),
            FA([x, y], self.pyeq(x, y) == self.pyeq(y, x), patterns=[self.pyeq(x, y)]),
            FA([st, st2], self.pyeq(self.S2V(st), self.S2V(st2)) == (st == st2), patterns=[self.pyeq(self.S2V(st), self.S2V(st2))]),
            FA([x, y], z3.Implies(z3.And(self.ty(x) == self.cls["str"], self.pyeq(x, y)), x == y), patterns=[self.pyeq(x, y)]),
            FA([x, y], z3.Implies(z3.And(self.ty(x) == self.cls["type"], self.pyeq(x, y)), x == y), patterns=[self.pyeq(x, y)]),
            FA([x, y], z3.Implies(z3.And(self.ty(x) == self.cls["PyNone"], self.pyeq(x, y)), x == y), patterns=[self.pyeq(x, y)]),
            FA([x, y], z3.Implies(z3.And(self.ty(x) == self.cls["int"], self.ty(y) == self.cls["int"]),
                                  self.pyeq(x, y) == (self.V2I(x) == self.V2I(y))), patterns=[self.pyeq(x, y)]),
        ]
        # classes without a custom __eq__ compare by identity
        for cname in ("UnknownType", "NoneType"):
            if cname in self.cls:
                A.append(FA([x, y], z3.Implies(z3.And(self.ty(x) == self.cls[cname], self.pyeq(x, y)), x == y), patterns=[self.pyeq(x, y)]))
        # sequences
        A += [
            FA([s], self.slen(s) >= 0, patterns=[self.slen(s)]),
            self.slen(self.snil) == 0, self.ty(self.snil) == self.cls["list"],
            self.slen(self.tnil) == 0, self.ty(self.tnil) == self.cls["tuple"],
            FA([s, e], z3.And(self.slen(self.sapp(s, e)) == self.slen(s) + 1,
                              self.sat(self.sapp(s, e), self.slen(s)) == e,
                              self.ty(self.sapp(s, e)) == z3.If(self.ty(s) == self.cls["tuple"], self.cls["tuple"], self.cls["list"])),
               patterns=[self.sapp(s, e)]),
            FA([s, e, j], z3.Implies(z3.And(0 <= j, j < self.slen(s)), self.sat(self.sapp(s, e), j) == self.sat(s, j)),
               patterns=[self.sat(self.sapp(s, e), j)]),
            # membership (fold style + witnesses)
            FA([x], z3.Not(self.shas(self.snil, x)), patterns=[self.shas(self.snil, x)]),
            FA([x], z3.Not(self.shas(self.tnil, x)), patterns=[self.shas(self.tnil, x)]),
            FA([s, e, x], self.shas(self.sapp(s, e), x) == z3.Or(self.shas(s, x), self.pyeq(x, e)),
               patterns=[self.shas(self.sapp(s, e), x)]),
            FA([s, x], z3.Implies(self.shas(s, x), z3.And(0 <= self.sidx(s, x), self.sidx(s, x) < self.slen(s),
                                                         self.pyeq(x, self.sat(s, self.sidx(s, x))))),
               patterns=[self.shas(s, x)]),
            FA([s, j], z3.Implies(z3.And(0 <= j, j < self.slen(s)), self.shas(s, self.sat(s, j))),
               patterns=[self.sat(s, j)]),
            FA([s, s2], z3.And(self.slen(self.sconcat(s, s2)) == self.slen(s) + self.slen(s2),
                               self.ty(self.sconcat(s, s2)) == z3.If(self.ty(s) == self.cls["tuple"], self.cls["tuple"], self.cls["list"])),
               patterns=[self.sconcat(s, s2)]),
            FA([s, s2, j], z3.Implies(z3.And(0 <= j, j < self.slen(s) + self.slen(s2)),
                                      self.sat(self.sconcat(s, s2), j) ==
                                      z3.If(j < self.slen(s), self.sat(s, j), self.sat(s2, j - self.slen(s)))),
               patterns=[self.sat(self.sconcat(s, s2), j)]),
            FA([s, s2, x], self.shas(self.sconcat(s, s2), x) == z3.Or(self.shas(s, x), self.shas(s2, x)),
               patterns=[self.shas(self.sconcat(s, s2), x)]),
        ]
        A += [
            self.distinct(self.snil), self.distinct(self.tnil),
            FA([s, e], self.distinct(self.sapp(s, e)) == z3.And(self.distinct(s), z3.Not(self.shas(s, e))), patterns=[self.distinct(self.sapp(s, e))]),
            FA([s, i, j], z3.Implies(z3.And(self.distinct(s), 0 <= i, i < j, j < self.slen(s)), z3.Not(self.pyeq(self.sat(s, i), self.sat(s, j)))),
               patterns=[z3.MultiPattern(self.distinct(s), self.sat(s, i), self.sat(s, j))]),
        ]
        A += [
            FA([s, s2, x], z3.Implies(z3.And(self.lsubset(s, s2), self.shas(s, x)), self.shas(s2, x)),
               patterns=[z3.MultiPattern(self.lsubset(s, s2), self.shas(s, x))]),
            FA([s, s2], z3.Implies(z3.Not(self.lsubset(s, s2)), z3.And(self.shas(s, self.sk_lsub(s, s2)), z3.Not(self.shas(s2, self.sk_lsub(s, s2))))),
               patterns=[self.lsubset(s, s2)]),
            FA([s, s2, y, x], z3.Implies(z3.And(self.lsubset_ex(s, s2, y), self.shas(s, x), x != y), self.shas(s2, x)),
               patterns=[z3.MultiPattern(self.lsubset_ex(s, s2, y), self.shas(s, x))]),
            FA([s, s2, y], z3.Implies(z3.Not(self.lsubset_ex(s, s2, y)),
                                      z3.And(self.shas(s, self.sk_lsubx(s, s2, y)), self.sk_lsubx(s, s2, y) != y, z3.Not(self.shas(s2, self.sk_lsubx(s, s2, y))))),
               patterns=[self.lsubset_ex(s, s2, y)]),
        ]
        # sets
        A += [
            FA([x], z3.Not(self.has(self.sempty, x)), patterns=[self.has(self.sempty, x)]),
            self.card(self.sempty) == 0,
            FA([s], self.card(s) >= 0, patterns=[self.card(s)]),
            FA([s, x], z3.Implies(self.has(s, x), self.card(s) > 0), patterns=[self.has(s, x)]),
            FA([s], z3.Implies(self.card(s) > 0, self.has(s, self.sany(s))), patterns=[self.card(s)]),
            FA([s, e, x], self.has(self.sadd(s, e), x) == z3.Or(self.has(s, x), x == e), patterns=[self.has(self.sadd(s, e), x)]),
            FA([s, e], z3.And(self.has(self.sadd(s, e), e),
                              self.card(self.sadd(s, e)) == z3.If(self.has(s, e), self.card(s), self.card(s) + 1)),
               patterns=[self.sadd(s, e)]),
            FA([s, e, x], self.has(self.sdel(s, e), x) == z3.And(self.has(s, x), x != e), patterns=[self.has(self.sdel(s, e), x)]),
            FA([s, e], self.card(self.sdel(s, e)) == z3.If(self.has(s, e), self.card(s) - 1, self.card(s)), patterns=[self.sdel(s, e)]),
            FA([s, s2, x], self.has(self.sunion(s, s2), x) == z3.Or(self.has(s, x), self.has(s2, x)),
               patterns=[self.has(self.sunion(s, s2), x)]),
            FA([s, s2, x], self.has(self.sinter(s, s2), x) == z3.And(self.has(s, x), self.has(s2, x)),
               patterns=[self.has(self.sinter(s, s2), x)]),
            FA([s, s2, x], self.has(self.sdiff(s, s2), x) == z3.And(self.has(s, x), z3.Not(self.has(s2, x))),
               patterns=[self.has(self.sdiff(s, s2), x)]),
            # cardinalities of union / intersection (inclusion-exclusion and bounds)
            FA([s, s2], z3.And(self.card(self.sunion(s, s2)) + self.card(self.sinter(s, s2)) == self.card(s) + self.card(s2),
                               self.card(self.sinter(s, s2)) <= self.card(s), self.card(self.sinter(s, s2)) <= self.card(s2),
                               self.card(self.sunion(s, s2)) >= self.card(s), self.card(self.sunion(s, s2)) >= self.card(s2)),
               patterns=[self.sunion(s, s2)]),
            FA([s, s2], z3.And(self.card(self.sunion(s, s2)) + self.card(self.sinter(s, s2)) == self.card(s) + self.card(s2),
                               self.card(self.sinter(s, s2)) <= self.card(s), self.card(self.sinter(s, s2)) <= self.card(s2)),
               patterns=[self.sinter(s, s2)]),
            FA([s], z3.Implies(self.card(s) == 0, FA([x], z3.Not(self.has(s, x)), patterns=[self.has(s, x)])), patterns=[self.card(s)]),
            # subset / extensional equality with witnesses
            FA([s, s2, x], z3.Implies(z3.And(self.subset(s, s2), self.has(s, x)), self.has(s2, x)),
               patterns=[z3.MultiPattern(self.subset(s, s2), self.has(s, x))]),
            FA([s, s2], z3.Implies(z3.Not(self.subset(s, s2)),
                                   z3.And(self.has(s, self.sk_sub(s, s2)), z3.Not(self.has(s2, self.sk_sub(s, s2))))),
               patterns=[self.subset(s, s2)]),
            FA([s, s2], z3.Implies(z3.And(self.subset(s, s2), self.subset(s2, s)), self.card(s) == self.card(s2)),
               patterns=[z3.MultiPattern(self.subset(s, s2), self.subset(s2, s))]),
            FA([s, s2, x], z3.Implies(z3.And(self.disjoint(s, s2), self.has(s, x)), z3.Not(self.has(s2, x))),
               patterns=[z3.MultiPattern(self.disjoint(s, s2), self.has(s, x))]),
            FA([s, s2], z3.Implies(z3.Not(self.disjoint(s, s2)),
                                   z3.And(self.has(s, self.sk_dis(s, s2)), self.has(s2, self.sk_dis(s, s2)))),
               patterns=[self.disjoint(s, s2)]),
            FA([s, x], self.has(self.set_of_seq(s), x) == self.shas(s, x), patterns=[self.has(self.set_of_seq(s), x)]),
        ]
        # dicts
        A += [
            FA([k], z3.Not(self.dhas(self.dempty, k)), patterns=[self.dhas(self.dempty, k)]),
            self.dlen(self.dempty) == 0, self.ty(self.dempty) == self.cls["dict"],
            self.dkeys(self.dempty) == self.snil,
            FA([d], self.dlen(d) >= 0, patterns=[self.dlen(d)]),
            FA([d], self.slen(self.dkeys(d)) == self.dlen(d), patterns=[self.dkeys(d)]),
            FA([d, k], z3.Implies(self.dhas(d, k), self.dlen(d) > 0), patterns=[self.dhas(d, k)]),
            FA([d, k, x, k2], self.dhas(self.dset(d, k, x), k2) == z3.Or(self.dhas(d, k2), k2 == k),
               patterns=[self.dhas(self.dset(d, k, x), k2)]),
            FA([d, k, x, k2], self.dget(self.dset(d, k, x), k2) == z3.If(k2 == k, x, self.dget(d, k2)),
               patterns=[self.dget(self.dset(d, k, x), k2)]),
            FA([d, k, x], z3.And(self.dlen(self.dset(d, k, x)) == z3.If(self.dhas(d, k), self.dlen(d), self.dlen(d) + 1),
                                 self.ty(self.dset(d, k, x)) == z3.If(self.ty(d) == self.cls["defaultdict"], self.cls["defaultdict"], self.cls["dict"]),
                                 self.dkeys(self.dset(d, k, x)) == z3.If(self.dhas(d, k), self.dkeys(d), self.sapp(self.dkeys(d), k))),
               patterns=[self.dset(d, k, x)]),
            FA([d, k, k2], self.dhas(self.ddel(d, k), k2) == z3.And(self.dhas(d, k2), k2 != k), patterns=[self.dhas(self.ddel(d, k), k2)]),
            FA([d, k, k2], z3.Implies(k2 != k, self.dget(self.ddel(d, k), k2) == self.dget(d, k2)), patterns=[self.dget(self.ddel(d, k), k2)]),
            FA([d, k], self.dlen(self.ddel(d, k)) == z3.If(self.dhas(d, k), self.dlen(d) - 1, self.dlen(d)), patterns=[self.ddel(d, k)]),
            # keys list <-> membership
            FA([d, j], z3.Implies(z3.And(0 <= j, j < self.dlen(d)), self.dhas(d, self.sat(self.dkeys(d), j))),
               patterns=[self.sat(self.dkeys(d), j)]),
            FA([d, k], z3.Implies(self.dhas(d, k), z3.And(0 <= self.sidx(self.dkeys(d), k), self.sidx(self.dkeys(d), k) < self.dlen(d),
                                                          self.sat(self.dkeys(d), self.sidx(self.dkeys(d), k)) == k)),
               patterns=[self.dhas(d, k)]),
            # keys are pairwise distinct
            FA([d, i, j], z3.Implies(z3.And(0 <= i, i < j, j < self.dlen(d)), self.sat(self.dkeys(d), i) != self.sat(self.dkeys(d), j)),
               patterns=[z3.MultiPattern(self.sat(self.dkeys(d), i), self.sat(self.dkeys(d), j))]),
        ]


# ---------------------------------------------------------------------- solving
def to_smt2(voc: Voc, assumptions, goal, extra_axioms=()) -> str:
    s = z3.Solver()
    for a in voc.axioms:
        s.add(a)
    for a in extra_axioms:
        s.add(a)
    for a in assumptions:
        s.add(a)
    s.add(z3.Not(goal))
    return s.to_smt2()


def solve_smt2(text: str, timeout_ms: int = 10000, seed: int = 0, mode: str = "both"):
    """Returns (verdict, seconds, solver-name, reason). verdict in unsat/sat/unknown.
    Two z3 configurations are tried in turn: the Boogie/Dafny-style one (auto_config=false, mbqi=false: pure
    E-matching on the explicit triggers; measured 0.03 s where the default configuration times out) and the default."""
    t0 = time.time()
    verdict, reason, used = "unknown", "", "z3-5.1(api)"
    cfgs = (("z3-5.1(api,ematching)", {"auto_config": False, "mbqi": False}), ("z3-5.1(api,default)", {}))
    if mode == "ematching":
        cfgs = cfgs[:1]
    elif mode == "default":
        cfgs = cfgs[1:]
    for cfg_name, cfg in cfgs:
        try:
            ctx = z3.Context()
            s = z3.Solver(ctx=ctx)
            s.set("timeout", timeout_ms)
            s.set("random_seed", seed)
            for k, val in cfg.items():
                s.set(k, val)
            s.from_string(text)
            r = s.check()
            verdict = str(r)
            reason = s.reason_unknown() if verdict == "unknown" else ""
            used = cfg_name
        except z3.Z3Exception as e:  # pragma: no cover
            verdict, reason = "error", str(e)
        if verdict in ("unsat", "sat"):
            break
    return verdict, time.time() - t0, used, reason


def solve_cli(text: str, solver: str, timeout_s: int = 10):
    t0 = time.time()
    with tempfile.NamedTemporaryFile("w", suffix=".smt2", delete=False, dir=os.environ.get("VERIF_TMP", None)) as fh:
        fh.write(text)
        path = fh.name
    try:
        if solver == "cvc5":
            cmd = ["/usr/bin/cvc5", "--simplification=none", "--enum-inst-interleave", "--enum-inst",
                   f"--tlimit={timeout_s * 1000}", "--strings-exp", path]
        elif solver == "z3-4.8":
            cmd = ["/usr/bin/z3", f"-T:{timeout_s}", path]
        else:
            cmd = ["z3-new", f"-T:{timeout_s}", path]
        try:
            out = subprocess.run(cmd, capture_output=True, text=True, timeout=timeout_s + 5).stdout.strip().splitlines()
            verdict = out[0] if out else "unknown"
            if verdict not in ("sat", "unsat", "unknown"):
                verdict = "unknown"
        except subprocess.TimeoutExpired:
            verdict = "unknown"
    finally:
        os.unlink(path)
    return verdict, time.time() - t0, solver, ""
