"""Front end: re-reads the real source of the repository on every run.

Nothing is transcribed by hand: functions are located by "relative/file.py::Qual.name" and handed to the
symbolic executor as `ast` nodes.  This module also builds the class table (bases, C3 MRO, methods,
class-level constants, decorators) that the executor needs for isinstance / dispatch / constants.
"""
import ast
import hashlib
import os
from dataclasses import dataclass, field
from typing import Dict, List, Optional, Tuple

REPO = os.environ.get("VERIF_REPO", "/repo")
PKG = "json_to_models"


@dataclass
class FuncInfo:
    key: str                    # "json_to_models/x.py::Class.func"
    file: str
    qual: str
    node: ast.AST               # FunctionDef
    cls: Optional[str]          # owning class qualname or None
    decorators: List[str]
    src_hash: str
    lineno: int
    module: str
    enclosing: Optional[str] = None     # key of the enclosing function for a nested def (its parameters are free variables here)


@dataclass
class ClassInfo:
    name: str                   # short name (unique in the repo for the classes we care about)
    qual: str
    file: str
    bases: List[str]
    node: ast.ClassDef
    methods: Dict[str, FuncInfo] = field(default_factory=dict)
    consts: Dict[str, ast.AST] = field(default_factory=dict)   # class-level NAME = <expr>
    mro: List[str] = field(default_factory=list)
    slots: List[str] = field(default_factory=list)


class Repo:
    def __init__(self, root: str = None):
        self.root = root or REPO
        self.files: Dict[str, ast.Module] = {}
        self.sources: Dict[str, str] = {}
        self.funcs: Dict[str, FuncInfo] = {}
        self.classes: Dict[str, ClassInfo] = {}
        self.module_consts: Dict[str, Dict[str, ast.AST]] = {}
        self.module_imports: Dict[str, Dict[str, str]] = {}
        self._load()

    # ------------------------------------------------------------------ loading
    def _load(self):
        base = os.path.join(self.root, PKG)
        for dirpath, _dirs, files in os.walk(base):
            for fn in sorted(files):
                if not fn.endswith(".py"):
                    continue
                full = os.path.join(dirpath, fn)
                rel = os.path.relpath(full, self.root)
                with open(full, encoding="utf-8") as fh:
                    src = fh.read()
                try:
                    tree = ast.parse(src, filename=full)
                except SyntaxError as e:           # a tree that does not parse: checker cannot decide
                    raise SystemExit(f"pyvc: cannot parse {rel}: {e}")
                self.files[rel] = tree
                self.sources[rel] = src
                self._index_module(rel, tree, src)
        self._compute_mros()

    def _index_module(self, rel: str, tree: ast.Module, src: str):
        consts: Dict[str, ast.AST] = {}
        imports: Dict[str, str] = {}
        self.module_consts[rel] = consts
        self.module_imports[rel] = imports

        def visit(body, qual_prefix: str, cls: Optional[ClassInfo]):
            for node in body:
                if isinstance(node, (ast.FunctionDef, ast.AsyncFunctionDef)):
                    qual = f"{qual_prefix}{node.name}"
                    seg = ast.get_source_segment(src, node) or ""
                    fi = FuncInfo(
                        key=f"{rel}::{qual}", file=rel, qual=qual, node=node,
                        cls=cls.qual if cls else None,
                        decorators=[ast.unparse(d) for d in node.decorator_list],
                        src_hash=hashlib.sha256(seg.encode()).hexdigest()[:16],
                        lineno=node.lineno, module=rel,
                    )
                    # property setters/deleters share the name: keep them under name.setter
                    decos = fi.decorators
                    if any(d.endswith(".setter") for d in decos):
                        fi.key += ".setter"
                        qual += ".setter"
                    elif any(d.endswith(".deleter") for d in decos):
                        fi.key += ".deleter"
                        qual += ".deleter"
                    self.funcs[fi.key] = fi
                    # functions defined directly inside this one (decorator wrappers): indexed as outer.inner, verified with the
                    # outer function's parameters as additional symbolic inputs
                    for sub in node.body:
                        if isinstance(sub, (ast.FunctionDef, ast.AsyncFunctionDef)):
                            seg2 = ast.get_source_segment(src, sub) or ""
                            fi2 = FuncInfo(key=f"{rel}::{qual}.{sub.name}", file=rel, qual=f"{qual}.{sub.name}", node=sub, cls=None,
                                           decorators=[ast.unparse(d) for d in sub.decorator_list],
                                           src_hash=hashlib.sha256(seg2.encode()).hexdigest()[:16], lineno=sub.lineno, module=rel,
                                           enclosing=fi.key)
                            self.funcs.setdefault(fi2.key, fi2)
                    if cls is not None:
                        mname = node.name
                        if fi.key.endswith(".setter"):
                            mname += ".setter"
                        elif fi.key.endswith(".deleter"):
                            mname += ".deleter"
                        cls.methods[mname] = fi
                elif isinstance(node, ast.ClassDef):
                    qual = f"{qual_prefix}{node.name}"
                    ci = ClassInfo(name=node.name, qual=qual, file=rel,
                                   bases=[ast.unparse(b) for b in node.bases], node=node)
                    # nested helper classes (TypeStyle, Context) are indexed by qualified name only
                    key = node.name if not qual_prefix else qual
                    self.classes[key] = ci
                    for sub in node.body:
                        if isinstance(sub, ast.Assign) and len(sub.targets) == 1 and isinstance(sub.targets[0], ast.Name):
                            ci.consts[sub.targets[0].id] = sub.value
                            if sub.targets[0].id == "__slots__":
                                try:
                                    ci.slots = list(ast.literal_eval(sub.value))
                                except Exception:
                                    pass
                        elif isinstance(sub, ast.AnnAssign) and isinstance(sub.target, ast.Name) and sub.value is not None:
                            ci.consts[sub.target.id] = sub.value
                    visit(node.body, qual + ".", ci)
                elif cls is None and isinstance(node, ast.Assign) and len(node.targets) == 1 \
                        and isinstance(node.targets[0], ast.Name):
                    consts[node.targets[0].id] = node.value
                elif cls is None and isinstance(node, ast.ImportFrom):
                    for a in node.names:
                        imports[a.asname or a.name] = f"{'.' * node.level}{node.module or ''}:{a.name}"
                elif cls is None and isinstance(node, ast.Import):
                    for a in node.names:
                        imports[a.asname or a.name.split('.')[0]] = a.name

        visit(tree.body, "", None)

    def _compute_mros(self):
        def lin(name, seen=()):
            ci = self.classes.get(name)
            if ci is None:
                return [name]
            if ci.mro:
                return ci.mro
            if name in seen:
                return [name]
            seqs = [lin(b.split(".")[-1], seen + (name,)) for b in ci.bases] + [[b.split(".")[-1] for b in ci.bases]]
            res = [name]
            seqs = [list(s) for s in seqs if s]
            while seqs:
                for s in seqs:
                    cand = s[0]
                    if not any(cand in t[1:] for t in seqs):
                        break
                else:
                    cand = seqs[0][0]
                res.append(cand)
                seqs = [[x for x in s if x != cand] for s in seqs]
                seqs = [s for s in seqs if s]
            ci.mro = res
            return res
        for n in list(self.classes):
            if "." not in n:
                lin(n)
        for n, ci in self.classes.items():
            if "." in n and not ci.mro:
                ci.mro = [n] + [b for b in ci.bases if b in self.classes]

    # ------------------------------------------------------------------ queries
    def func(self, key: str) -> Optional[FuncInfo]:
        return self.funcs.get(key)

    def subclasses(self, name: str) -> List[str]:
        return [c for c, ci in self.classes.items() if "." not in c and name in ci.mro]

    def is_subclass(self, sub: str, sup: str) -> bool:
        ci = self.classes.get(sub)
        if ci is None:
            return sub == sup
        return sup in ci.mro

    def find_method(self, cls: str, meth: str) -> Optional[FuncInfo]:
        ci = self.classes.get(cls)
        if ci is None:
            return None
        for c in ci.mro:
            cj = self.classes.get(c)
            if cj and meth in cj.methods:
                return cj.methods[meth]
        return None

    def class_const(self, cls: str, name: str) -> Optional[Tuple[str, ast.AST]]:
        ci = self.classes.get(cls)
        if ci is None:
            return None
        for c in ci.mro:
            cj = self.classes.get(c)
            if cj and name in cj.consts:
                return c, cj.consts[name]
        return None

    def tree_hash(self) -> str:
        h = hashlib.sha256()
        for rel in sorted(self.sources):
            h.update(rel.encode())
            h.update(self.sources[rel].encode())
        return h.hexdigest()[:16]
