"""Expression translation (part of the Engine, see verify.py)."""
import ast
from typing import List, Optional

import z3

from .sym import SV, St, Untranslatable, NATIVE, Outcome

PY_BUILTIN_CLASSES = {"int", "float", "bool", "str", "list", "dict", "set", "frozenset", "tuple", "type", "object",
                      "ValueError", "TypeError", "KeyError", "IndexError", "AttributeError", "RuntimeError",
                      "Exception", "NotImplementedError", "ImportError", "ZeroDivisionError", "StopIteration"}


class Frame:
    """per-function-activation context"""

    def __init__(self, fi, contract, cls_name, kind="code"):
        self.fi = fi
        self.contract = contract
        self.cls = cls_name
        self.kind = kind              # code | spec
        self.try_stack: List[List[str]] = []
        self.pending: List[Outcome] = []     # exceptional edges produced while evaluating expressions
        self.old_state: Optional[St] = None
        self.loop_ordinal = 0
        self.closures = {}
        self.generator_acc = None


class ExprMixin:
    # ------------------------------------------------------------------ entry
    def ev(self, node: ast.AST, st: St, fr: Frame) -> SV:
        m = getattr(self, "ev_" + type(node).__name__, None)
        if m is None:
            raise Untranslatable(f"expression {type(node).__name__}: {ast.unparse(node)[:80]}")
        return m(node, st, fr)

    def evb(self, node, st, fr):
        return self.truth(self.ev(node, st, fr))

    # ------------------------------------------------------------------ guards used while evaluating sub-expressions
    def under(self, st: St, cond, thunk):
        """evaluate thunk() under the extra path condition cond (facts recorded inside are guarded by cond)"""
        n_g, n_f = len(st.guards), len(st.facts)
        st.guards.append(cond)
        try:
            r = thunk()
        finally:
            inner = st.guards[n_g + 1:]
            del st.guards[n_g:]
        # path conditions assumed inside (the non-raising side of an implicit exception) survive as conditional guards
        for g in inner:
            st.guards.append(z3.Implies(cond, g))
        new = st.facts[n_f:]
        del st.facts[n_f:]
        for f in new:
            st.facts.append(z3.Implies(cond, f))
        return r

    # ------------------------------------------------------------------ obligations / exceptional edges
    def oblige(self, st: St, fr: Frame, kind, name, goal, node=None, text="", props=None):
        if fr.kind == "spec":
            return            # clauses are total by construction (checked by rtc), no definedness obligations inside specs
        line = getattr(node, "lineno", fr.fi.lineno if fr.fi else 0)
        self.emit(kind, name, list(st.guards) + list(st.facts), goal, fr, line, text or (ast.unparse(node)[:100] if node is not None else ""), props)

    def may_raise(self, st: St, fr: Frame, exc: str, defined, node, what):
        """An implicit exception `exc` is raised unless `defined` holds."""
        if fr.kind == "spec":
            return
        if z3.is_true(z3.simplify(defined)):
            return
        if self.exc_is_handled(fr, exc) or self.exc_is_declared(fr, exc):
            s2 = st.copy()
            s2.guards.append(z3.Not(defined))
            fr.pending.append(Outcome("raise", s2, exc=exc))
            st.guards.append(defined)
        else:
            n = fr.def_counter.get((exc, what), 0)
            fr.def_counter[(exc, what)] = n + 1
            self.oblige(st, fr, "def", f"def.{exc}.{what}#{n}", defined, node)
            st.facts.append(z3.Implies(z3.And(st.guards) if st.guards else z3.BoolVal(True), defined))

    def exc_is_handled(self, fr, exc):
        for handlers in fr.try_stack:
            for h in handlers:
                if h == "*" or exc in self.voc.subclasses_of(h) or h == exc:
                    return True
        return False

    def exc_is_declared(self, fr, exc):
        c = fr.contract
        if c is None:
            return False
        for cl in c.raises:
            if cl.name == exc or cl.name == "*" or exc in self.voc.subclasses_of(cl.name):
                return True
        return False

    # ------------------------------------------------------------------ literals and names
    def ev_Constant(self, node, st, fr):
        v = node.value
        if v is None:
            return SV(self.voc.NONE, "none")
        if v is Ellipsis:
            return SV(self.voc.ELLIPSIS, "any")
        if isinstance(v, bool):
            return SV(z3.BoolVal(v), "bool")
        if isinstance(v, int):
            return SV(z3.IntVal(v), "int")
        if isinstance(v, float):
            return SV(z3.RealVal(repr(v)), "float")
        if isinstance(v, str):
            return SV(z3.StringVal(v), "str")
        raise Untranslatable(f"constant {v!r}")

    def class_value(self, name: str) -> SV:
        key = name.replace(".", "__")
        if key not in self.voc.cls:
            raise Untranslatable(f"unknown class {name}")
        return SV(self.voc.clsobj(self.voc.cls[key]), "class", py=("class", key))

    def ev_Name(self, node, st, fr):
        n = node.id
        if n in st.env:
            return st.env[n]
        if n in fr.closures:
            return SV(None, "pyfunc", py=("closure", fr.closures[n]))
        return self.global_name(n, fr, node)

    def global_name(self, n, fr, node=None):
        if n in ("True", "False"):
            return SV(z3.BoolVal(n == "True"), "bool")
        file = fr.fi.file if fr.fi else None
        # spec-side names
        if fr.kind == "spec" and n in self.SPEC_CONSTS:
            return self.SPEC_CONSTS[n](self)
        if n in self.repo.classes and "." not in n:
            return self.class_value(n)
        if n in PY_BUILTIN_CLASSES:
            return self.class_value(n)
        if n == "Ellipsis":
            return SV(self.voc.ELLIPSIS, "any")
        fn_ = self.resolve_function(file, n) if file else None
        if fn_ is None and fr.kind == "spec":
            cands = [f for k, f in self.repo.funcs.items() if k.endswith("::" + n)]
            fn_ = cands[0] if len(cands) == 1 else None
        if fn_ is not None:
            return SV(None, "pyfunc", py=("func", fn_))
        # module-level constants of the defining module, or imported ones
        mod = self.resolve_global(file, n) if file else None
        if mod is not None:
            return self.global_const(mod[0], n if mod[2] is None else mod[2], mod[1])
        if fr.kind == "spec":
            g = self.find_any_global(n)
            if g is not None:
                return self.global_const(g[0], n, g[1])
        return SV(None, "pyfunc", py=("name", n))

    def module_file(self, file, modpath):
        import os
        level = len(modpath) - len(modpath.lstrip("."))
        rest = modpath.lstrip(".")
        base = os.path.dirname(file)
        for _ in range(max(level - 1, 0)):
            base = os.path.dirname(base)
        if level == 0:
            base = ""
        cand_mod = os.path.join(base, *rest.split(".")) if rest else base
        for cand in (cand_mod + ".py", os.path.join(cand_mod, "__init__.py")):
            if cand in self.repo.files:
                return cand
        return None

    def resolve_function(self, file, n, depth=0):
        fi = self.repo.funcs.get(f"{file}::{n}")
        if fi is not None:
            return fi
        imp = self.repo.module_imports.get(file, {}).get(n)
        if imp and ":" in imp and depth < 4:
            modpath, orig = imp.split(":")
            mf = self.module_file(file, modpath)
            if mf is not None:
                return self.resolve_function(mf, orig, depth + 1)
        return None

    def find_any_global(self, n):
        for f, consts in self.repo.module_consts.items():
            if n in consts:
                return f, consts[n]
        return None

    def resolve_global(self, file, n, depth=0):
        consts = self.repo.module_consts.get(file, {})
        if n in consts:
            return file, consts[n], None
        imp = self.repo.module_imports.get(file, {}).get(n)
        if imp and ":" in imp and depth < 4:
            modpath, orig = imp.split(":")
            # relative import resolution
            level = len(modpath) - len(modpath.lstrip("."))
            rest = modpath.lstrip(".")
            import os
            base = os.path.dirname(file)
            for _ in range(max(level - 1, 0)):
                base = os.path.dirname(base)
            if level == 0:
                base = ""
            cand_mod = os.path.join(base, *rest.split(".")) if rest else base
            for cand in (cand_mod + ".py", os.path.join(cand_mod, "__init__.py")):
                if cand in self.repo.files:
                    r = self.resolve_global(cand, orig, depth + 1)
                    if r is not None:
                        return r[0], r[1], orig if r[2] is None else r[2]
        return None

    def global_const(self, file, name, value_ast) -> SV:
        """module-level NAME = <expr>: simple literals are evaluated, everything else is an opaque global constant
        with its class recorded when it is `ClassName(...)`."""
        key = (file, name)
        if key in self.globals_cache:
            return self.globals_cache[key]
        sv = None
        try:
            try:
                lit = ast.literal_eval(value_ast)
            except Exception:
                # constant folding of simple module constants such as  "\n" * 3  or  " " * 4
                if all(isinstance(n, (ast.Constant, ast.BinOp, ast.Mult, ast.Add, ast.Expression, ast.Load)) for n in ast.walk(value_ast)):
                    lit = eval(compile(ast.Expression(value_ast), "<const>", "eval"), {"__builtins__": {}})
                else:
                    raise
            sv = self.lit_to_sv(lit)
        except Exception:
            pass
        if sv is None and isinstance(value_ast, (ast.Set, ast.Tuple, ast.List)) and \
                all(isinstance(x, (ast.Name, ast.Constant)) for x in value_ast.elts):
            tmp_fr = Frame(type("F", (), {"file": file, "lineno": 0, "key": file})(), None, None)
            self.init_frame(tmp_fr)
            sv = self.ev(value_ast, St(), tmp_fr)
        if sv is None:
            t = z3.Const(f"G_{name}", self.voc.Val)
            self.add_global_fact(self.voc.fn("born", self.voc.Val, z3.IntSort())(t) == 0)
            pt = "any"
            if isinstance(value_ast, ast.Call) and isinstance(value_ast.func, ast.Name) and value_ast.func.id in self.repo.classes:
                cname = value_ast.func.id
                self.global_facts.append(self.voc.ty(t) == self.voc.cls[cname])
                pt = "obj:" + cname
            if pt == "any" and name in self.side.attr_sorts:
                pt = self.side.attr_sorts[name]
            sv = SV(t, pt, py=("global", file, name))
        self.globals_cache[key] = sv
        return sv

    def lit_to_sv(self, lit):
        v = self.voc
        if lit is None or isinstance(lit, (bool, int, float, str)):
            return self.ev_Constant(ast.Constant(lit), None, None)
        if isinstance(lit, (tuple, list)):
            items = [self.lit_to_sv(x) for x in lit]
            if any(x is None for x in items):
                return None
            cur = v.tnil if isinstance(lit, tuple) else v.snil
            for x in items:
                cur = v.sapp(cur, self.box(x))
            return SV(cur, "tuple" if isinstance(lit, tuple) else "list", py=("items", items))
        return None

    # ------------------------------------------------------------------ operators
    def ev_BoolOp(self, node, st, fr):
        vals = node.values
        first = self.ev(vals[0], st, fr)
        res = first
        conds = []
        parts = [first]
        for nxt in vals[1:]:
            c = self.truth(res)
            g = c if isinstance(node.op, ast.And) else z3.Not(c)
            conds.append(g)
            cur_guard = z3.And(conds) if len(conds) > 1 else conds[0]
            nv = self.under(st, cur_guard, lambda nxt=nxt: self.ev(nxt, st, fr))
            parts.append(nv)
            res = self.ite(g, nv, res)
        if all(p.pt == "bool" for p in parts):
            ts = [p.t for p in parts]
            return SV(z3.And(ts) if isinstance(node.op, ast.And) else z3.Or(ts), "bool")
        if res.t is not None:
            # remember the operands: the truth value of `a and b` is truth(a) and truth(b), whatever value it denotes
            res = SV(res.t, res.pt, py=("boolop", "and" if isinstance(node.op, ast.And) else "or", parts))
        return res

    def ite(self, c, a: SV, b: SV) -> SV:
        if a.pt == b.pt and a.pt in NATIVE:
            return SV(z3.If(c, a.t, b.t), a.pt)
        if a.pt in NATIVE and b.pt in NATIVE and {a.pt, b.pt} <= {"int", "float"}:
            return SV(z3.If(c, self.unbox(a, "float").t, self.unbox(b, "float").t), "float")
        if a.t is None or b.t is None:
            if z3.is_true(z3.simplify(c)):
                return a
            if z3.is_false(z3.simplify(c)):
                return b
            raise Untranslatable("conditional over python-level values")
        pt = a.pt if a.pt == b.pt else self.join_pt(a.pt, b.pt)
        return SV(z3.If(c, self.box(a), self.box(b)), pt)

    def join_pt(self, a, b):
        if a == "none" and b.startswith("obj:"):
            return "opt:" + b[4:]
        if b == "none" and a.startswith("obj:"):
            return "opt:" + a[4:]
        return "any"

    def ev_UnaryOp(self, node, st, fr):
        v = self.ev(node.operand, st, fr)
        if isinstance(node.op, ast.Not):
            return SV(z3.Not(self.truth(v)), "bool")
        if isinstance(node.op, ast.USub):
            if v.pt == "float":
                return SV(-v.t, "float")
            return SV(-self.unbox(v, "int").t, "int")
        raise Untranslatable("unary op")

    def ev_IfExp(self, node, st, fr):
        c = self.evb(node.test, st, fr)
        a = self.under(st, c, lambda: self.ev(node.body, st, fr))
        b = self.under(st, z3.Not(c), lambda: self.ev(node.orelse, st, fr))
        return self.ite(c, a, b)

    def ev_BinOp(self, node, st, fr):
        a = self.ev(node.left, st, fr)
        b = self.ev(node.right, st, fr)
        return self.binop(node.op, a, b, st, fr, node)

    def binop(self, op, a, b, st, fr, node):
        v = self.voc
        setlike = ("set", "frozenset")
        if isinstance(op, (ast.BitAnd, ast.BitOr, ast.Sub)) and (a.pt in setlike or b.pt in setlike):
            f = {ast.BitAnd: v.sinter, ast.BitOr: v.sunion, ast.Sub: v.sdiff}[type(op)]
            return SV(f(self.box(a), self.box(b)), "set")
        if isinstance(op, ast.Add):
            if a.pt == "str" or b.pt == "str":
                return SV(z3.Concat(self.unbox(a, "str").t, self.unbox(b, "str").t), "str")
            if a.pt in ("list", "tuple") or b.pt in ("list", "tuple"):
                return SV(v.sconcat(self.box(a), self.box(b)), a.pt if a.pt in ("list", "tuple") else b.pt)
        if isinstance(op, ast.Mod) and a.pt == "str":
            raise Untranslatable("%-formatting")
        num = "float" if "float" in (a.pt, b.pt) or isinstance(op, ast.Div) else "int"
        x, y = self.unbox(a, num), self.unbox(b, num)
        if isinstance(op, ast.Add):
            return SV(x.t + y.t, num)
        if isinstance(op, ast.Sub):
            return SV(x.t - y.t, num)
        if isinstance(op, ast.Mult):
            return SV(x.t * y.t, num)
        if isinstance(op, ast.Div):
            self.may_raise(st, fr, "ZeroDivisionError", y.t != 0, node, "div")
            return SV(x.t / y.t, "float")
        if isinstance(op, ast.FloorDiv) and num == "int":
            self.may_raise(st, fr, "ZeroDivisionError", y.t != 0, node, "floordiv")
            return SV(x.t / y.t, "int")
        if isinstance(op, ast.Mod) and num == "int":
            self.may_raise(st, fr, "ZeroDivisionError", y.t != 0, node, "mod")
            return SV(x.t % y.t, "int")
        raise Untranslatable(f"binary operator {type(op).__name__}")

    def ev_Compare(self, node, st, fr):
        left = self.ev(node.left, st, fr)
        parts = []
        for op, rn in zip(node.ops, node.comparators):
            right = self.ev(rn, st, fr)
            parts.append(self.compare(op, left, right, st, fr, node))
            left = right
        return SV(z3.And(parts) if len(parts) > 1 else parts[0], "bool")

    def compare(self, op, a, b, st, fr, node):
        v = self.voc
        if isinstance(op, ast.Eq):
            return self.eq(a, b)
        if isinstance(op, ast.NotEq):
            return z3.Not(self.eq(a, b))
        if isinstance(op, ast.Is):
            return self.identical(a, b)
        if isinstance(op, ast.IsNot):
            return z3.Not(self.identical(a, b))
        if isinstance(op, (ast.In, ast.NotIn)):
            r = self.contains(b, a, st, fr, node)
            return r if isinstance(op, ast.In) else z3.Not(r)
        # ordering
        if a.pt == "str" or b.pt == "str":
            x, y = self.unbox(a, "str").t, self.unbox(b, "str").t
            lt, le = (x < y), (x <= y)
            return {ast.Lt: lt, ast.LtE: le, ast.Gt: z3.Not(le), ast.GtE: z3.Not(lt)}[type(op)]
        if a.pt in ("set", "frozenset") and b.pt in ("set", "frozenset"):
            if isinstance(op, ast.LtE):
                return v.subset(a.t, b.t)
            if isinstance(op, ast.GtE):
                return v.subset(b.t, a.t)
        num = "float" if "float" in (a.pt, b.pt) else "int"
        x, y = self.unbox(a, num).t, self.unbox(b, num).t
        return {ast.Lt: x < y, ast.LtE: x <= y, ast.Gt: x > y, ast.GtE: x >= y}[type(op)]

    def identical(self, a, b):
        if a.pt in NATIVE and b.pt in NATIVE and a.pt == b.pt:
            return a.t == b.t
        if a.t is None or b.t is None:
            raise Untranslatable("identity of python-level value")
        return self.box(a) == self.box(b)

    def contains(self, coll: SV, x: SV, st, fr, node):
        v = self.voc
        if coll.t is not None and z3.is_app(coll.t) and coll.t.decl().kind() == z3.Z3_OP_ITE and coll.pt in ("list", "tuple", "set", "frozenset", "dict"):
            # membership in a conditional container: distribute, so that the axioms of the underlying constructors can fire
            c_, a_, b_ = coll.t.children()
            return z3.If(c_, self.contains(SV(a_, coll.pt), x, st, fr, node), self.contains(SV(b_, coll.pt), x, st, fr, node))
        if coll.pt == "str":
            return z3.Contains(coll.t, self.unbox(x, "str").t)
        if coll.pt in ("list", "tuple"):
            return v.shas(coll.t, self.box(x))
        if coll.pt in ("set", "frozenset"):
            return v.has(coll.t, self.box(x))
        if coll.pt == "dict":
            return v.dhas(coll.t, self.box(x))
        if coll.pt == "pylist":
            items = self.py_items(coll)
            return z3.Or([self.eq(x, it) for it in items]) if items else z3.BoolVal(False)
        if coll.pt == "pydict":
            return z3.Or([self.eq(x, k) for k, _ in coll.py[1]]) if coll.py[1] else z3.BoolVal(False)
        if coll.pt.startswith("obj:"):
            m = self.repo.find_method(coll.pt[4:], "__contains__")
            if m is not None:
                r = self.call_function(m, [coll, x], {}, st, fr, node)
                return self.truth(r)
        raise Untranslatable(f"`in` on {coll.pt}")

    def py_items(self, sv: SV) -> List[SV]:
        kind = sv.py[0]
        if kind == "strs":
            return [SV(z3.StringVal(s), "str") for s in sv.py[1]]
        if kind == "items":
            return list(sv.py[1])
        raise Untranslatable("python-level list")

    # ------------------------------------------------------------------ displays
    def ev_Tuple(self, node, st, fr):
        return self.ev_seq_display(node, st, fr, "tuple")

    def ev_List(self, node, st, fr):
        return self.ev_seq_display(node, st, fr, "list")

    def ev_seq_display(self, node, st, fr, pt):
        v = self.voc
        cur = SV(v.snil if pt == "list" else v.tnil, pt)
        items = []
        simple = True
        for e in node.elts:
            if isinstance(e, ast.Starred):
                simple = False
                inner = self.ev(e.value, st, fr)
                cur = SV(v.sconcat(cur.t, self.as_seq(inner, st, fr, e).t), pt)
            else:
                x = self.ev(e, st, fr)
                items.append(x)
                cur = SV(v.sapp(cur.t, self.box(x)) if x.t is not None else None, pt) if cur.t is not None else cur
                if x.t is None:
                    cur = SV(None, pt)
        if simple and (cur.t is None or pt == "tuple"):
            # keep python-level knowledge of small tuples (used for tuple unpacking / constant tables)
            return SV(cur.t, pt if cur.t is not None else "pylist", py=("items", items))
        return cur

    def ev_Set(self, node, st, fr):
        v = self.voc
        cur = v.sempty
        for e in node.elts:
            if isinstance(e, ast.Starred):
                inner = self.ev(e.value, st, fr)
                cur = v.sunion(cur, self.as_set(inner, st, fr, e).t)
            else:
                cur = v.sadd(cur, self.box(self.ev(e, st, fr)))
        return SV(cur, "set")

    def ev_Dict(self, node, st, fr):
        v = self.voc
        cur = v.dempty
        pairs = []
        py_ok = True
        for k, e in zip(node.keys, node.values):
            if k is None:
                inner = self.ev(e, st, fr)
                if inner.pt == "pydict" and py_ok:
                    for kk, vv in inner.py[1]:
                        pairs = [(a, b) for a, b in pairs if not self.same_const(a, kk)] + [(kk, vv)]
                        cur = v.dset(cur, self.box(kk), self.box(vv)) if cur is not None and vv.t is not None else None
                    continue
                raise Untranslatable("** in dict display")
            kv, ev_ = self.ev(k, st, fr), self.ev(e, st, fr)
            pairs.append((kv, ev_))
            if cur is not None and ev_.t is not None and kv.t is not None:
                cur = v.dset(cur, self.box(kv), self.box(ev_))
            else:
                cur = None
        return SV(cur, "dict" if cur is not None else "pydict", py=("pairs", pairs))

    def same_const(self, a: SV, b: SV):
        try:
            return z3.is_true(z3.simplify(self.eq(a, b)))
        except Untranslatable:
            return False

    def ev_JoinedStr(self, node, st, fr):
        parts = []
        for p in node.values:
            if isinstance(p, ast.Constant):
                parts.append(z3.StringVal(p.value))
            else:
                x = self.ev(p.value, st, fr)
                parts.append(self.to_str(x))
        if not parts:
            return SV(z3.StringVal(""), "str")
        return SV(z3.Concat(*parts) if len(parts) > 1 else parts[0], "str")

    def to_str(self, x: SV):
        if x.pt == "str":
            return x.t
        if x.pt == "int":
            return z3.IntToStr(x.t)
        return self.voc.pystr(self.box(x))

    # ------------------------------------------------------------------ conversions between container views
    def as_seq(self, sv: SV, st, fr, node, site=None) -> SV:
        """the list of elements an iteration over sv yields"""
        v = self.voc
        if sv.pt in ("list", "tuple"):
            return sv
        if sv.pt == "pylist":
            cur = v.snil
            for it in self.py_items(sv):
                cur = v.sapp(cur, self.box(it))
            return SV(cur, "list", py=sv.py)
        if sv.pt in ("set", "frozenset"):
            # arbitrary iteration order: a fresh list whose members are exactly the set's, pairwise distinct
            o = self.fresh("order")
            x = self.bv("ox")
            i, j = self.bv("oi", z3.IntSort()), self.bv("oj", z3.IntSort())
            st.facts.append(z3.ForAll([x], v.shas(o, x) == v.has(sv.t, x), patterns=[v.shas(o, x), v.has(sv.t, x)]))
            st.facts.append(z3.ForAll([x], z3.Implies(v.has(sv.t, x), z3.And(0 <= v.sidx(o, x), v.sidx(o, x) < v.slen(o), v.sat(o, v.sidx(o, x)) == x)),
                                      patterns=[v.has(sv.t, x)]))
            st.facts.append(v.slen(o) == v.card(sv.t))
            st.facts.append(z3.ForAll([i, j], z3.Implies(z3.And(0 <= i, i < j, j < v.slen(o)), v.sat(o, i) != v.sat(o, j)),
                                      patterns=[z3.MultiPattern(v.sat(o, i), v.sat(o, j))]))
            st.facts.append(z3.ForAll([i], z3.Implies(z3.And(0 <= i, i < v.slen(o)), v.has(sv.t, v.sat(o, i))), patterns=[v.sat(o, i)]))
            st.facts.append(v.ty(o) == v.cls["list"])
            self.note_set_iteration(fr, node)
            return SV(o, "list", py=("setorder", sv))
        if sv.pt == "dict":
            return SV(v.dkeys(sv.t), "list")
        if sv.pt in ("dvalues", "ditems"):
            d = sv.py[1]
            f = v.fn("dvalues_list" if sv.pt == "dvalues" else "ditems_list", v.Val, v.Val)
            R = f(d.t)
            j = self.bv("dj", z3.IntSort())
            keys = v.dkeys(d.t)
            st.facts.append(v.slen(R) == v.dlen(d.t))
            st.facts.append(v.ty(R) == v.cls["list"])
            if sv.pt == "dvalues":
                body = v.sat(R, j) == v.dget(d.t, v.sat(keys, j))
            else:
                body = v.sat(R, j) == v.sapp(v.sapp(v.tnil, v.sat(keys, j)), v.dget(d.t, v.sat(keys, j)))
            st.facts.append(z3.ForAll([j], z3.Implies(z3.And(0 <= j, j < v.dlen(d.t)), body), patterns=[v.sat(R, j)]))
            return SV(R, "list")
        if sv.pt == "pydict":
            return self.as_seq(SV(None, "pylist", py=("items", [k for k, _ in sv.py[1]])), st, fr, node)
        if sv.pt.startswith("obj:"):
            m = self.repo.find_method(sv.pt[4:], "__iter__")
            if m is not None:
                return self.as_seq(self.call_function(self.generator_as_list(m), [sv], {}, st, fr, node), st, fr, node)
        if sv.pt == "str" and sv.t is not None and z3.is_string_value(sv.t):
            # iteration over a string constant: its characters
            cur = v.snil
            for ch_ in sv.t.as_string():
                cur = v.sapp(cur, v.S2V(z3.StringVal(ch_)))
            return SV(cur, "list")
        if sv.pt == "any":
            self.typing_assumptions += 1       # iterated value is viewed as a sequence
            return SV(sv.t, "list")
        raise Untranslatable(f"iteration over {sv.pt}")

    def generator_as_list(self, m):
        """a generator whose whole body is `yield e` / `yield from e` is read as the function returning `[e]` / `list(e)`:
        the sequence of values an iteration over it produces (same source node, mechanical rewrite of the one statement)"""
        import copy
        import dataclasses
        body = [b for b in m.node.body if not (isinstance(b, ast.Expr) and isinstance(b.value, ast.Constant))]
        if len(body) == 1 and isinstance(body[0], ast.Expr) and isinstance(body[0].value, (ast.Yield, ast.YieldFrom)) and body[0].value.value is not None:
            y = body[0].value
            new = ast.List(elts=[y.value], ctx=ast.Load()) if isinstance(y, ast.Yield) else \
                ast.Call(func=ast.Name(id="list", ctx=ast.Load()), args=[y.value], keywords=[])
            node = copy.copy(m.node)
            node.body = [ast.copy_location(ast.Return(value=ast.copy_location(new, body[0])), body[0])]
            ast.fix_missing_locations(node)
            cache = self.__dict__.setdefault("_gen_cache", {})
            if m.key not in cache:
                cache[m.key] = dataclasses.replace(m, node=node)
            return cache[m.key]
        return m

    def as_set(self, sv: SV, st, fr, node) -> SV:
        v = self.voc
        if sv.pt in ("set", "frozenset"):
            return sv
        if sv.pt in ("list", "tuple"):
            if sv.py and sv.py[0] == "dkeys" and sv.py[1].t is not None:
                # set(d.keys()): membership in the key set is membership in the dict.  A local fact (a global axiom on every
                # shas(dkeys(d), k) changes which unrelated obligations the solvers discharge)
                d_ = self.box(sv.py[1])
                k_ = self.bv("ksk")
                res = v.set_of_seq(sv.t)
                st.facts.append(z3.ForAll([k_], v.has(res, k_) == v.dhas(d_, k_), patterns=[v.has(res, k_)]))
                return SV(res, "set")
            return SV(v.set_of_seq(sv.t), "set")
        if sv.pt == "pylist":
            cur = v.sempty
            for it in self.py_items(sv):
                cur = v.sadd(cur, self.box(it))
            return SV(cur, "set")
        if sv.pt == "dict":
            return SV(v.set_of_seq(v.dkeys(sv.t)), "set")
        return SV(v.set_of_seq(self.as_seq(sv, st, fr, node).t), "set")

    def note_set_iteration(self, fr, node):
        fr.set_iterations.append(getattr(node, "lineno", 0))
