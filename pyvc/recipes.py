"""Helper constructors usable inside replay recipes (kept tiny and dependency-free)."""


def fs(*xs):
    return frozenset(xs)


def mkset(*xs):
    return set(xs)
