"""C06: order-insensitivity obligations.

Every place in the package where a set / frozenset (or an iterable whose order is a set's iteration order) is consumed in
order yields one obligation `order@<function>#<n>`.  An obligation is discharged
  * by rule, when the consumer is order-insensitive by a prelude lemma (set/frozenset/sorted-without-key/any/all/len/max/min/sum,
    membership tests, set comprehensions), or
  * by a sidecar justification (contracts/order_sites.py) naming the site by function and source text: cardinality-one guard,
    commuting loop body, result used only through an order-insensitive view.  Justifications are part of the trusted base and are
    audited by the bounded hash-seed stand-in.
A site that is neither (new code iterating a set, a justification whose text no longer matches) is an undischarged obligation.

Set iteration order is taken to be arbitrary (subsumes PYTHONHASHSEED, id()-based hashes, process identity).
"""
import ast
import re
from dataclasses import dataclass
from typing import Dict, List, Optional, Set

SET_ATTRS = {"pointers", "child_pointers", "replaces", "_literals", "literals", "dict_keys_fields"}
RETURNS_SET = {"distinct_words", "resolve", "extract_root", "set", "frozenset"}
RETURNS_SET_ORDERED = {"filter_pointers", "permutations", "combinations"}      # iterables that enumerate a set argument in its order
INSENSITIVE_CALLS = {"set", "frozenset", "any", "all", "len", "max", "min", "sum", "distinct_words"}
PASS_THROUGH = {"list", "tuple", "iter", "enumerate", "reversed", "map", "filter", "zip", "chain"}


@dataclass
class Site:
    func: str
    line: int
    text: str
    consumer: str
    verdict: str = ""         # rule:<name> | justified:<kind> | open
    why: str = ""


class SetFlow(ast.NodeVisitor):
    """per function: which names hold sets (or set-ordered iterables), then where they are consumed in order"""

    def __init__(self, key, fn: ast.FunctionDef, extra_set_names=()):
        self.key = key
        self.fn = fn
        self.set_names: Set[str] = set(extra_set_names)
        self.ordered_names: Set[str] = set()
        self.sites: List[Site] = []
        self.parents: Dict[int, ast.AST] = {}
        for p in ast.walk(fn):
            for c in ast.iter_child_nodes(p):
                self.parents[id(c)] = p
        for a in fn.args.args + fn.args.kwonlyargs:
            ann = ast.unparse(a.annotation) if a.annotation is not None else ""
            if ann.split("[")[0] in ("set", "Set", "FrozenSet", "AbstractSet", "frozenset"):
                self.set_names.add(a.arg)
        # names holding a collection OF sets (a list / ordered set whose elements are sets): their elements are sets
        self.coll_of_sets: Set[str] = set()
        coll_ann = re.compile(r"^(Iterable|List|Sequence|Collection|OrderedSet|Tuple|list|tuple)\[(Set|FrozenSet|AbstractSet|set|frozenset)\[")
        for n in ast.walk(fn):
            if isinstance(n, ast.AnnAssign) and isinstance(n.target, ast.Name) and coll_ann.match(ast.unparse(n.annotation).replace("typing.", "")):
                self.coll_of_sets.add(n.target.id)
            elif isinstance(n, (ast.Assign, ast.AnnAssign)) and isinstance(getattr(n, "value", None), (ast.ListComp, ast.GeneratorExp)) \
                    and isinstance(n.value.elt, (ast.Set, ast.SetComp)):
                for t in (n.targets if isinstance(n, ast.Assign) else [n.target]):
                    if isinstance(t, ast.Name):
                        self.coll_of_sets.add(t.id)
        # fixed point over assignments
        changed = True
        while changed:
            changed = False
            for n in ast.walk(fn):
                if isinstance(n, (ast.For, ast.comprehension)) and isinstance(n.iter, ast.Name) and n.iter.id in self.coll_of_sets \
                        and isinstance(n.target, ast.Name) and n.target.id not in self.set_names:
                    self.set_names.add(n.target.id)
                    changed = True
                if isinstance(n, (ast.Assign, ast.AnnAssign)) and getattr(n, "value", None) is not None:
                    targets = n.targets if isinstance(n, ast.Assign) else [n.target]
                    kind = self.kind(n.value)
                    for t in targets:
                        if isinstance(t, ast.Name) and kind:
                            s = self.set_names if kind == "set" else self.ordered_names
                            if t.id not in s:
                                s.add(t.id)
                                changed = True

    # ---- classification of expressions
    def kind(self, e) -> Optional[str]:
        if isinstance(e, (ast.Set, ast.SetComp)):
            return "set"
        if isinstance(e, ast.Name):
            return "set" if e.id in self.set_names else ("ordered" if e.id in self.ordered_names else None)
        if isinstance(e, ast.Attribute) and e.attr in SET_ATTRS:
            return "set"
        if isinstance(e, ast.BinOp) and isinstance(e.op, (ast.BitOr, ast.BitAnd, ast.Sub, ast.BitXor)):
            if self.kind(e.left) == "set" or self.kind(e.right) == "set":
                return "set"
        if isinstance(e, ast.IfExp):
            return self.kind(e.body) or self.kind(e.orelse)
        if isinstance(e, ast.Call):
            name = e.func.id if isinstance(e.func, ast.Name) else (e.func.attr if isinstance(e.func, ast.Attribute) else None)
            if name in RETURNS_SET:
                return "set"
            if name in RETURNS_SET_ORDERED:
                if name in ("permutations", "combinations") and not (e.args and self.kind(e.args[0])):
                    return None          # enumerates an ordered argument
                return "ordered"
            if name in ("copy", "union", "intersection", "difference") and isinstance(e.func, ast.Attribute) and self.kind(e.func.value) == "set":
                return "set"
            if name in PASS_THROUGH and e.args and any(self.kind(a) for a in e.args):
                return "ordered"
            if name == "get" and len(e.args) == 2 and self.kind(e.args[1]) == "set":
                return "set"
        if isinstance(e, ast.GeneratorExp) and self.kind(e.generators[0].iter):
            return "ordered"
        if isinstance(e, ast.ListComp) and self.kind(e.generators[0].iter):
            return "ordered"
        if isinstance(e, ast.Starred):
            return self.kind(e.value)
        return None

    # ---- sites
    def collect(self):
        for n in ast.walk(self.fn):
            if isinstance(n, ast.For) and self.kind(n.iter):
                self.site(n, n.iter, "for-loop")
            elif isinstance(n, (ast.ListComp, ast.GeneratorExp, ast.DictComp, ast.SetComp)):
                for g in n.generators:
                    if self.kind(g.iter) and not isinstance(n, ast.SetComp):
                        self.site(n, g.iter, self.consumer_of(n, type(n).__name__))
            elif isinstance(n, ast.Starred) and self.kind(n.value):
                self.site(n, n.value, self.consumer_of(n, "star"))
            elif isinstance(n, ast.Call):
                name = n.func.id if isinstance(n.func, ast.Name) else (n.func.attr if isinstance(n.func, ast.Attribute) else None)
                for a in n.args:
                    if isinstance(a, (ast.GeneratorExp, ast.ListComp, ast.Starred)):
                        continue            # handled at the comprehension / star itself
                    k = self.kind(a)
                    if k and name not in RETURNS_SET_ORDERED and name not in PASS_THROUGH:
                        if name in INSENSITIVE_CALLS or (name == "sorted" and not n.keywords):
                            self.site(n, a, f"call:{name}")       # recorded, discharged by rule
                            continue
                        if name == "sorted":
                            # a key function may tie distinct elements (ties keep the set's order): canonical only for an injective key
                            self.site(n, a, "call:sorted:uniquekey" if self.key_is_injective(n) else "call:sorted:key")
                            continue
                        if k == "set" and name not in ("sorted", "join", "next", "list", "tuple"):
                            continue       # a set passed as a value (not iterated here)
                        self.site(n, a, f"call:{name}")
                    elif k and name in PASS_THROUGH:
                        self.site(n, a, self.consumer_of(n, f"call:{name}"))
        return self.sites

    UNIQUE_ID_ATTRS = {"index"}      # ModelMeta.index: handed out by the registry's counter, one per model (trusted)

    def key_is_injective(self, call: ast.Call) -> bool:
        """sorted(xs, key=lambda x: E) where E is x.<unique id> or a tuple with such a component (whole, not sliced / indexed);
        `reverse=` does not matter"""
        kw = {k.arg: k.value for k in call.keywords}
        if set(kw) - {"key", "reverse"} or "key" not in kw:
            return False
        lam = kw["key"]
        if not (isinstance(lam, ast.Lambda) and len(lam.args.args) == 1 and not lam.args.vararg and not lam.args.kwarg):
            return False
        x = lam.args.args[0].arg

        def unique(e):
            return isinstance(e, ast.Attribute) and e.attr in self.UNIQUE_ID_ATTRS and isinstance(e.value, ast.Name) and e.value.id == x
        body = lam.body
        return unique(body) or (isinstance(body, ast.Tuple) and any(unique(e) for e in body.elts))

    def consumer_of(self, node, default):
        """walk up through pass-through wrappers to the real consumer"""
        cur = node
        for _ in range(6):
            p = self.parents.get(id(cur))
            if p is None:
                break
            if isinstance(p, ast.Call):
                name = p.func.id if isinstance(p.func, ast.Name) else (p.func.attr if isinstance(p.func, ast.Attribute) else None)
                if name in PASS_THROUGH or (isinstance(p.func, ast.Attribute) and p.func.attr in ("from_iterable",)):
                    cur = p
                    continue
                return f"call:{name}" + (":key" if name == "sorted" and p.keywords else "")
            if isinstance(p, (ast.Starred, ast.GeneratorExp, ast.ListComp)):
                cur = p
                continue
            if isinstance(p, ast.SetComp):
                return "SetComp"
            if isinstance(p, ast.Set):
                return "call:set"
            if isinstance(p, ast.Compare):
                return "membership"
            break
        return default

    def site(self, node, it, consumer):
        if isinstance(node, ast.For):
            text = f"for {ast.unparse(node.target)} in {ast.unparse(node.iter)}:"
        else:
            text = ast.unparse(node)
        text = text.split("\n")[0][:160]
        s = Site(self.key, getattr(node, "lineno", 0), text, consumer)
        rule = None
        c = consumer.replace("call:", "")
        if c in INSENSITIVE_CALLS or c == "SetComp" or c == "membership":
            rule = f"rule:{c}-is-order-insensitive"
        elif c == "sorted":
            rule = "rule:sorted-without-key-is-canonical"
        elif c == "sorted:uniquekey":
            rule = "rule:sorted-by-a-key-with-a-unique-id-component-is-canonical"
        if rule:
            s.verdict, s.why = rule, "prelude lemma L-PERM / canonical sorting of distinct totally ordered elements"
        else:
            s.verdict = "open"
        if not any(x.line == s.line and x.text == s.text for x in self.sites):
            self.sites.append(s)


def analyse(repo, justifications: List[dict]):
    """-> list of Site for the whole package"""
    out: List[Site] = []
    # interprocedural step: functions whose return value is a set / a set-ordered iterable (two rounds reach a fixed point here)
    for _round in range(3):
        for key, fi in sorted(repo.funcs.items()):
            if not isinstance(fi.node, ast.FunctionDef):
                continue
            flow = SetFlow(key, fi.node)
            for n in ast.walk(fi.node):
                if isinstance(n, ast.Return) and n.value is not None:
                    k = flow.kind(n.value)
                    if k == "set":
                        RETURNS_SET.add(fi.node.name)
                    elif k == "ordered":
                        RETURNS_SET_ORDERED.add(fi.node.name)
    for key, fi in sorted(repo.funcs.items()):
        if not isinstance(fi.node, ast.FunctionDef):
            continue
        # nested defs are analysed as part of their parent
        if any(key != k2 and key.startswith(k2 + ".") and "::" in k2 and repo.funcs[k2].node is not fi.node and
               any(n is fi.node for n in ast.walk(repo.funcs[k2].node)) for k2 in repo.funcs):
            continue
        flow = SetFlow(key, fi.node)
        out += flow.collect()
    for s in out:
        if s.verdict == "open":
            for j in justifications:
                if j["function"] == s.func and j["site"] == s.text:
                    s.verdict = "justified:" + j["kind"]
                    s.why = j["why"]
                    break
    return out
