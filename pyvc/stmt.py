"""Statement execution: paths, phi-merging of branches, loops cut at invariants, try/except, with."""
import ast
from typing import List

import z3

from .sym import SV, St, Untranslatable, NATIVE, Outcome
from .expr import Frame


def assigned_names(stmts, env=None) -> set:
    out = set()
    direct = set()
    for s in stmts:
        for n in ast.walk(s):
            if isinstance(n, ast.Name) and isinstance(n.ctx, (ast.Store, ast.Del)):
                out.add(n.id)
                direct.add(n.id)
            elif isinstance(n, ast.Call) and isinstance(n.func, ast.Attribute) and isinstance(n.func.value, ast.Name):
                from .apply import MUTATORS
                if n.func.attr in MUTATORS:
                    out.add(n.func.value.id)
            elif isinstance(n, (ast.Subscript, ast.Attribute)) and isinstance(n.ctx, (ast.Store, ast.Del)):
                b = n
                while isinstance(b, (ast.Subscript, ast.Attribute)):
                    b = b.value
                if isinstance(b, ast.Name) and isinstance(n, ast.Subscript):
                    out.add(b.id)
            elif isinstance(n, ast.Call) and isinstance(n.func, ast.Attribute) and isinstance(n.func.value, ast.Subscript):
                from .apply import MUTATORS
                if n.func.attr in MUTATORS:
                    b = n.func.value
                    while isinstance(b, (ast.Subscript, ast.Attribute)):
                        b = b.value
                    if isinstance(b, ast.Name):
                        out.add(b.id)
    if env is not None:
        # a method call x.remove(...) mutates x only when x is a container, not when x is a heap object
        for n in list(out - direct):
            x = env.get(n)
            if x is not None and (x.pt.startswith("obj:") or x.pt in ("class", "tlocal", "pyfunc")):
                out.discard(n)
    return out


def assigned_attrs(stmts) -> set:
    out = set()
    for s in stmts:
        for n in ast.walk(s):
            if isinstance(n, ast.Attribute) and isinstance(n.ctx, (ast.Store, ast.Del)):
                out.add(n.attr)
            elif isinstance(n, ast.Call) and isinstance(n.func, ast.Attribute) and isinstance(n.func.value, ast.Attribute):
                from .apply import MUTATORS
                if n.func.attr in MUTATORS:
                    out.add(n.func.value.attr)
            elif isinstance(n, ast.Subscript) and isinstance(n.ctx, (ast.Store, ast.Del)) and isinstance(n.value, ast.Attribute):
                out.add(n.value.attr)
    return out


class StmtMixin:
    def exec_block(self, stmts, st: St, fr: Frame) -> List[Outcome]:
        live = [st]
        done: List[Outcome] = []
        for s in stmts:
            nxt = []
            for cur in live:
                outs = self.exec_stmt(s, cur, fr)
                for o in outs:
                    if o.kind == "normal":
                        nxt.append(o.st)
                    else:
                        done.append(o)
            live = self.prune(nxt)
            if fr.kind == "code" and fr.fi is not None and live:
                for after, holder, lname in self.side.lemmas.get(fr.fi.key, []) if getattr(fr, "inline_depth", 0) == 0 else []:
                    if ast.unparse(s).startswith(after):
                        fr.lemmas_used.add(lname)
                        for cur in live:
                            self.cut_lemma(holder, lname, cur, fr, s)
            if not live:
                break
        return done + [Outcome("normal", x) for x in live]

    def check_binds(self, holder, env, what):
        """every parameter of a loop invariant / lemma must name a variable that exists at that point of the real function: a
        renamed or removed local makes the sidecar stale - that is 'contract does not bind' (the function leaves the verified set
        and the bounded stand-in decides), never a failed obligation"""
        for p in holder.params:
            if p in ("_it", "_seq", "_outer_it", "_outer_seq", "self") or p in env:
                continue
            if p.startswith("pre_") and p[4:] in env:
                continue
            raise Untranslatable(f"{what}: parameter `{p}` is not a variable of the function at this point (sidecar out of date: renamed local?)")

    def cut_lemma(self, holder, lname, st, fr, s):
        self.check_binds(holder, st.env, f"lemma {lname}")
        spec_fr = Frame(fr.fi, fr.contract, fr.cls, kind="spec")
        self.init_frame(spec_fr)
        spec_fr.old_state = fr.entry_state
        env = dict(st.env)
        tmp = St(st.guards, st.facts, env, st.heap, st.eff, st.epoch)
        forget = [n for n in getattr(holder, "forget", []) if n in st.env and st.env[n].t is not None]
        for cl in holder.clauses:
            spec_fr.exit_env = env
            g = self.eval_clause(cl, tmp, spec_fr)
            self._debug_state = (tmp, spec_fr)
            self.emit("lemma", f"lemma.{lname}.{cl.name}", list(tmp.guards) + list(tmp.facts), g, fr, s.lineno, ast.unparse(cl.expr)[:120], cl.props)
            if not forget:
                tmp.facts.append(z3.Implies(z3.And(st.guards) if st.guards else z3.BoolVal(True), g))
        st.facts[:] = tmp.facts
        if forget:
            # a real cut: the named variables are replaced by fresh values about which only the lemma is known
            for n in forget:
                old_ = st.env[n]
                st.env[n] = self.fresh_sv("cut_" + n, old_.pt)
            if getattr(holder, "only", False):
                # a full cut: everything learnt since function entry is dropped; what the rest of the function may use is the
                # preconditions and this lemma (dropping assumptions is always sound; it keeps later queries small and stable)
                st.facts[:] = list(fr.entry_state.facts)
            tmp2 = St(st.guards, st.facts, dict(st.env), st.heap, st.eff, st.epoch)
            spec_fr = Frame(fr.fi, fr.contract, fr.cls, kind="spec")
            self.init_frame(spec_fr)
            spec_fr.old_state = fr.entry_state
            spec_fr.exit_env = tmp2.env
            for cl in holder.clauses:
                g = self.eval_clause(cl, tmp2, spec_fr)
                tmp2.facts.append(z3.Implies(z3.And(st.guards) if st.guards else z3.BoolVal(True), g))
            st.facts[:] = tmp2.facts

    def prune(self, states):
        out = []
        for s in states:
            if any(z3.is_false(g) for g in s.guards):
                continue
            out.append(s)
        return out

    def exec_stmt(self, s, st: St, fr: Frame) -> List[Outcome]:
        m = getattr(self, "st_" + type(s).__name__, None)
        if m is None:
            raise Untranslatable(f"statement {type(s).__name__} at line {s.lineno}")
        n0 = len(fr.pending)
        root = getattr(fr, "outer_root", fr)
        allow = bool(fr.contract is not None and getattr(fr.contract, "opts", {}).get("abstract")) and fr.kind == "code"
        if not allow:
            outs = m(s, st, fr)
        else:
            backup = st.copy()
            n_ob = len(self.obligations)
            try:
                outs = m(s, st, fr)
            except (Untranslatable, ValueError, KeyError, AttributeError, TypeError, IndexError, z3.Z3Exception) as e:
                del self.obligations[n_ob:]
                del fr.pending[n0:]
                st.guards, st.facts, st.env, st.heap, st.eff, st.epoch = backup.guards, backup.facts, backup.env, backup.heap, backup.eff, backup.epoch
                outs = self.abstract_stmt(s, st, fr, str(e))
        extra = fr.pending[n0:]
        del fr.pending[n0:]
        return list(outs) + extra

    def abstract_stmt(self, s, st, fr, why):
        """Over-approximate an untranslatable statement: havoc everything it may assign; if it calls anything, havoc the
        whole heap; if the function declares `raises *`, it may also raise.  Listed in the evidence, never silent."""
        import hashlib
        text = ast.unparse(s)
        fr.abstracted.append({"line": s.lineno, "stmt": text[:160], "why": why[:160], "hash": hashlib.sha256(text.encode()).hexdigest()[:12]})
        has_call = any(isinstance(n, ast.Call) for n in ast.walk(s))
        if any(isinstance(n, (ast.Return, ast.Break, ast.Continue, ast.Yield, ast.YieldFrom)) for n in ast.walk(s)):
            raise Untranslatable(f"cannot abstract a statement with control flow: {why}")
        for n in assigned_names([s], st.env):
            st.env[n] = self.fresh_sv("abs_" + n, fr.contract.sorts.get(n, "any") if fr.contract else "any")
        if has_call:
            st.heap = {}
            st.epoch = next(self.fresh_n) + 1000
            if self.block_has_effects([s]):
                st.eff = self.fresh("eff", z3.IntSort())
        else:
            for a in assigned_attrs([s]):
                st.heap[a] = self.fresh(f"H_{a}", z3.ArraySort(self.voc.Val, self.voc.Val))
        outs = [Outcome("normal", st)]
        if has_call and self.exc_is_declared(fr, "AnyError"):
            outs.append(Outcome("raise", st.copy(), exc="AnyError"))
        return outs

    # ------------------------------------------------------------------ simple statements
    def st_Expr(self, s, st, fr):
        if isinstance(s.value, ast.Constant):
            return [Outcome("normal", st)]
        if isinstance(s.value, (ast.Yield, ast.YieldFrom)):
            return self.do_yield(s.value, st, fr)
        self.ev(s.value, st, fr)
        return [Outcome("normal", st)]

    def do_yield(self, y, st, fr):
        v = self.voc
        acc = st.env.get("$yielded", SV(v.snil, "list"))
        if isinstance(y, ast.Yield):
            x = self.ev(y.value, st, fr)
            st.env["$yielded"] = SV(v.sapp(acc.t, self.box(x)), "list")
        else:
            x = self.ev(y.value, st, fr)
            st.env["$yielded"] = SV(v.sconcat(acc.t, self.as_seq(x, st, fr, y).t), "list")
        return [Outcome("normal", st)]

    def st_Pass(self, s, st, fr):
        return [Outcome("normal", st)]

    def st_Assign(self, s, st, fr):
        val = self.ev(s.value, st, fr)
        for t in s.targets:
            self.assign_place(t, val, st, fr)
        return [Outcome("normal", st)]

    def st_AnnAssign(self, s, st, fr):
        if s.value is None:
            # `meta: DOptional` - the code's own statement of the static class of a variable: re-tag, assume nothing
            if isinstance(s.target, ast.Name) and s.target.id in st.env and isinstance(s.annotation, ast.Name) \
                    and s.annotation.id in self.repo.classes and st.env[s.target.id].pt == "any":
                st.env[s.target.id] = SV(st.env[s.target.id].t, "obj:" + s.annotation.id)
            return [Outcome("normal", st)]
        val = self.ev(s.value, st, fr)
        self.assign_place(s.target, val, st, fr)
        return [Outcome("normal", st)]

    def st_AugAssign(self, s, st, fr):
        load = ast.copy_location(ast.parse(ast.unparse(s.target), mode="eval").body, s)
        cur = self.ev(load, st, fr)
        rhs = self.ev(s.value, st, fr)
        self.assign_place(s.target, self.binop(s.op, cur, rhs, st, fr, s), st, fr)
        return [Outcome("normal", st)]

    def st_Return(self, s, st, fr):
        val = self.ev(s.value, st, fr) if s.value is not None else SV(self.voc.NONE, "none")
        return [Outcome("return", st, val=val)]

    def st_Raise(self, s, st, fr):
        exc = "Exception"
        if s.exc is not None:
            e = s.exc
            if isinstance(e, ast.Call):
                e = e.func
                # evaluate the message arguments for definedness only when cheap: skipped (text of messages is dropped)
            if isinstance(e, ast.Name):
                if e.id in st.env:
                    sv = st.env[e.id]
                    exc = sv.py[1] if sv.py and sv.py[0] == "exc" else (sv.pt[4:] if sv.pt.startswith("obj:") else "Exception")
                else:
                    exc = e.id
        else:
            exc = fr.current_exc or "Exception"
        return [Outcome("raise", st, exc=exc)]

    def st_Assert(self, s, st, fr):
        c = self.evb(s.test, st, fr)
        self.oblige(st, fr, "def", f"assert@{s.lineno}", c, s)
        st.facts.append(z3.Implies(z3.And(st.guards) if st.guards else z3.BoolVal(True), c))
        return [Outcome("normal", st)]

    def st_Delete(self, s, st, fr):
        v = self.voc
        for t in s.targets:
            if isinstance(t, ast.Subscript):
                cont = self.ev(t.value, st, fr)
                if cont.pt == "dict":
                    k = self.box(self.ev(t.slice, st, fr))
                    self.may_raise(st, fr, "KeyError", v.dhas(cont.t, k), t, "del")
                    self.assign_place(t.value, SV(v.ddel(cont.t, k), "dict"), st, fr)
                    continue
            raise Untranslatable("del of this target")
        return [Outcome("normal", st)]

    def st_FunctionDef(self, s, st, fr):
        fr.closures[s.name] = s
        return [Outcome("normal", st)]

    def st_Break(self, s, st, fr):
        return [Outcome("break", st)]

    def st_Continue(self, s, st, fr):
        return [Outcome("continue", st)]

    def st_Import(self, s, st, fr):
        return [Outcome("normal", st)]

    st_ImportFrom = st_Import

    # ------------------------------------------------------------------ if
    def st_If(self, s, st, fr):
        c = self.evb(s.test, st, fr)
        cs = z3.simplify(c)
        if z3.is_true(cs):
            return self.exec_block(s.body, st, fr)
        if z3.is_false(cs):
            return self.exec_block(s.orelse, st, fr) if s.orelse else [Outcome("normal", st)]
        a = st.copy()
        a.guards.append(c)
        b = st.copy()
        b.guards.append(z3.Not(c))
        # `isinstance(x, C)` narrows the static class of x in the guarded branch (used only to resolve attributes and methods)
        tests = s.test.values if isinstance(s.test, ast.BoolOp) and isinstance(s.test.op, ast.And) else [s.test]
        for t_ in tests:
            if isinstance(t_, ast.Call) and isinstance(t_.func, ast.Name) and t_.func.id == "isinstance" and len(t_.args) == 2 \
                    and isinstance(t_.args[0], ast.Name) and isinstance(t_.args[1], ast.Name) and t_.args[1].id in self.repo.classes \
                    and t_.args[0].id in a.env and a.env[t_.args[0].id].pt == "any" and a.env[t_.args[0].id].t is not None:
                a.env = dict(a.env)
                a.env[t_.args[0].id] = SV(a.env[t_.args[0].id].t, "obj:" + t_.args[1].id)
        outs_a = self.exec_block(s.body, a, fr)
        outs_b = self.exec_block(s.orelse, b, fr) if s.orelse else [Outcome("normal", b)]
        normal = [o for o in outs_a + outs_b if o.kind == "normal"]
        rest = [o for o in outs_a + outs_b if o.kind != "normal"]
        if len(normal) > 1 and not (fr.contract is not None and getattr(fr.contract, "opts", {}).get("no_merge")):
            try:
                merged, _ = self.merge_outcomes(st, normal)
                return rest + [Outcome("normal", merged)]
            except Untranslatable:
                return rest + normal
        return rest + normal

    # ------------------------------------------------------------------ try / with
    def st_Try(self, s, st, fr):
        if s.finalbody:
            raise Untranslatable("try/finally")
        handlers = []
        for h in s.handlers:
            if h.type is None:
                handlers.append(["*"])
            elif isinstance(h.type, ast.Tuple):
                handlers.append([e.id for e in h.type.elts])
            else:
                handlers.append([ast.unparse(h.type)])
        fr.try_stack.append([x for hs in handlers for x in hs])
        try:
            outs = self.exec_block(s.body, st, fr)
        finally:
            fr.try_stack.pop()
        result = []
        for o in outs:
            if o.kind == "raise":
                caught = None
                for hs, h in zip(handlers, s.handlers):
                    if any(x == "*" or o.exc == x or o.exc in self.voc.subclasses_of(x) for x in hs):
                        caught = h
                        break
                if caught is not None:
                    hst = o.st
                    if caught.name:
                        hst.env[caught.name] = SV(self.fresh("exc"), "obj:" + o.exc, py=("exc", o.exc))
                    prev = fr.current_exc
                    fr.current_exc = o.exc
                    result += self.exec_block(caught.body, hst, fr)
                    fr.current_exc = prev
                    continue
                result.append(o)
            elif o.kind == "normal" and s.orelse:
                result += self.exec_block(s.orelse, o.st, fr)
            else:
                result.append(o)
        return result

    def st_With(self, s, st, fr):
        if len(s.items) != 1:
            raise Untranslatable("with: several items")
        item = s.items[0]
        ce = item.context_expr
        # with open(path, "w") as f:  -> an output effect (C17), the file object is opaque
        if isinstance(ce, ast.Call) and isinstance(ce.func, ast.Name) and ce.func.id == "open":
            args = [self.ev(a, st, fr) for a in ce.args]
            for k in ce.keywords:
                self.ev(k.value, st, fr)
            mode = ast.literal_eval(ce.args[1]) if len(ce.args) > 1 and isinstance(ce.args[1], ast.Constant) else "r"
            fobj = SV(self.fresh("file"), "obj:file", py=("file", args[0], mode))
            if "w" in mode or "a" in mode:
                self.effect(st, fr, "open-w", s)
                st.env["$opened"] = args[0]
            if item.optional_vars is not None:
                self.bind_target(item.optional_vars, fobj, st, fr)
            return self.exec_block(s.body, st, fr)
        mgr = self.ev(ce, st, fr)
        cls = self.static_class(mgr)
        if cls is None:
            raise Untranslatable("with: unknown context manager")
        enter = self.repo.find_method(cls, "__enter__")
        exit_ = self.repo.find_method(cls, "__exit__")
        if enter is None or exit_ is None:
            raise Untranslatable("with: manager without __enter__/__exit__ in the repository")
        r = self.call_function(enter, [mgr], {}, st, fr, s)
        if item.optional_vars is not None:
            self.bind_target(item.optional_vars, r, st, fr)
        outs = self.exec_block(s.body, st, fr)
        res = []
        none = SV(self.voc.NONE, "none")
        for o in outs:
            if o.kind in ("normal", "return", "break", "continue"):
                self.call_function(exit_, [mgr, none, none, none], {}, o.st, fr, s)
            elif o.kind == "raise":
                exc = SV(self.fresh("exc"), "any")
                self.call_function(exit_, [mgr, exc, exc, exc], {}, o.st, fr, s)
            res.append(o)
        return res

    # ------------------------------------------------------------------ loops
    def next_loop_ordinal(self, fr):
        fr.loop_ordinal += 1
        return fr.loop_ordinal

    def st_While(self, s, st, fr):
        ordinal = self.loop_counter(fr, s)
        inv = self.side.loops.get((fr.fi.key, ordinal))
        if inv is None:
            raise Untranslatable(f"while loop #{ordinal} at line {s.lineno} has no invariant")
        return self.loop_generic(s, st, fr, inv, ordinal, kind="while")

    def body_mutates_iterable(self, s):
        """`for x in E:` is translated as an iteration over the value E had at loop entry (S5).  Python agrees only if the body does
        not change the container E names while it is being iterated: `for c in self.types: self.remove(c)` skips elements.
        -> description of the mutation site, or None.  Only alias iterables (a name / an attribute) are concerned: a call, a slice or a
        display makes a fresh container."""
        from .apply import MUTATORS
        it = s.iter
        if not isinstance(it, (ast.Name, ast.Attribute)):
            return None
        txt = ast.unparse(it)
        for b in s.body:
            for n in ast.walk(b):
                if isinstance(n, ast.Call) and isinstance(n.func, ast.Attribute):
                    if ast.unparse(n.func.value) == txt and n.func.attr in MUTATORS:
                        return f"line {n.lineno}: {ast.unparse(n)[:60]}"
                    # a contracted method of the same receiver that may modify the iterated attribute
                    if isinstance(it, ast.Attribute) and ast.unparse(n.func.value) == ast.unparse(it.value):
                        for key, c in self.side.contracts.items():
                            if key.split("::")[-1].split(".")[-1] == n.func.attr and c.modifies and (it.attr in c.modifies or "*" in c.modifies):
                                return f"line {n.lineno}: {ast.unparse(n)[:60]} (may modify .{it.attr})"
                elif isinstance(n, (ast.Assign, ast.AugAssign, ast.Delete)):
                    for t in (n.targets if not isinstance(n, ast.AugAssign) else [n.target]):
                        if isinstance(t, ast.Subscript) and ast.unparse(t.value) == txt:
                            return f"line {n.lineno}: {ast.unparse(n)[:60]}"
                        if isinstance(n, ast.AugAssign) and ast.unparse(t) == txt:
                            return f"line {n.lineno}: {ast.unparse(n)[:60]}"
        return None

    def st_For(self, s, st, fr):
        ordinal = self.loop_counter(fr, s)
        mut = self.body_mutates_iterable(s)
        if mut is not None:
            raise Untranslatable(f"for loop at line {s.lineno} iterates over {ast.unparse(s.iter)} while its body changes that container ({mut}): outside the translated subset (S5)")
        src = self.ev(s.iter, st, fr)
        # small python-level collections: unroll
        unroll = None
        if src.pt in ("pylist",) or (src.py and src.py[0] == "items" and src.pt in ("tuple", "pylist")):
            unroll = self.py_items(src)
        if src.pt == "enumerate_py":
            unroll = src.py[1]
        if unroll is not None and len(unroll) <= 4:
            return self.unrolled(s, unroll, st, fr)
        inv = self.side.loops.get((fr.fi.key, ordinal))
        if inv is None:
            raise Untranslatable(f"for loop #{ordinal} at line {s.lineno} has no invariant")
        return self.loop_generic(s, st, fr, inv, ordinal, kind="for", src=src)

    def loop_counter(self, fr, s):
        # ordinal = position of this loop statement among the for/while statements of the function, in source order
        loops = [n for n in ast.walk(fr.fi.node) if isinstance(n, (ast.For, ast.While))]
        loops.sort(key=lambda n: (n.lineno, n.col_offset))
        for i, n in enumerate(loops):
            if n is s:
                return i + 1
        return -1

    def unrolled(self, s, items, st, fr):
        live = [st]
        done = []
        for it in items:
            nxt = []
            for cur in live:
                self.bind_target(s.target, it, cur, fr)
                for o in self.exec_block(s.body, cur, fr):
                    if o.kind in ("normal", "continue"):
                        nxt.append(o.st)
                    elif o.kind == "break":
                        done.append(Outcome("normal", o.st))
                    else:
                        done.append(o)
            live = nxt
        if s.orelse:
            res = []
            for cur in live:
                res += self.exec_block(s.orelse, cur, fr)
            return done + res
        return done + [Outcome("normal", x) for x in live]

    def iter_view(self, src: SV, s, st, fr):
        """-> (seq SV, element builder j -> SV)"""
        v = self.voc
        if src.pt == "ditems":
            d = src.py[1]
            keys = v.dkeys(d.t)
            es = self.elem_sort(src.py[2], fr) if src.py[2] is not None else "any"
            ks = self.elem_sort_key(src.py[2], fr)
            return SV(keys, "list"), lambda j: SV(None, "tuple", py=("pair", [self.with_sort(v.sat(keys, j), ks), self.with_sort(v.dget(d.t, v.sat(keys, j)), es)]))
        if src.pt == "dvalues":
            # `_seq` of a loop over d.values() is the list of values (in key order)
            vals = self.as_seq(src, st, fr, s)
            es = self.elem_sort(src.py[2], fr) if src.py[2] is not None else "any"
            return vals, lambda j: self.with_sort(v.sat(vals.t, j), es)
        if src.pt == "enumerate":
            inner_seq, inner_elem = self.iter_view(src.py[1], s, st, fr)
            return inner_seq, lambda j: SV(None, "tuple", py=("pair", [SV(j, "int"), inner_elem(j)]))
        seq = self.as_seq(src, st, fr, s.iter if hasattr(s, "iter") else s)
        es = self.elem_sort(s.iter, fr) if hasattr(s, "iter") else "any"
        if src.pt == "dict":
            es = self.elem_sort_key(s.iter, fr)
        return seq, lambda j: self.with_sort(v.sat(seq.t, j), es)

    def elem_sort_key(self, node, fr):
        name = node.attr if isinstance(node, ast.Attribute) else (node.id if isinstance(node, ast.Name) else None)
        return self.attr_sort(name + "[k]", fr) if name else "any"

    def loop_generic(self, s, st, fr, inv, ordinal, kind, src=None):
        v = self.voc
        body = s.body
        names = assigned_names(body, st.env)
        # nested functions called in the body mutate the enclosing function's containers
        for n_ in ast.walk(ast.Module(body=list(body), type_ignores=[])):
            if isinstance(n_, ast.Call) and isinstance(n_.func, ast.Name) and n_.func.id in fr.closures:
                cdef = fr.closures[n_.func.id]
                params = {a.arg for a in cdef.args.args}
                names |= {x for x in assigned_names(cdef.body, st.env) if x not in params and x in st.env}
        if kind == "for":
            names |= {n.id for n in ast.walk(s.target) if isinstance(n, ast.Name)}
        attrs = assigned_attrs(body) | self.callee_modifies(body, fr, st.env)
        seq = elem = None
        if kind == "for":
            seq, elem = self.iter_view(src, s, st, fr)
        pre_env = dict(st.env)
        self.check_binds(inv, st.env, f"loop invariant {ordinal}")

        def inv_clauses(state: St, it):
            spec_fr = Frame(fr.fi, fr.contract, fr.cls, kind="spec")
            self.init_frame(spec_fr)
            spec_fr.old_state = fr.entry_state
            env = dict(state.env)
            if it is not None:
                env["_it"] = SV(it, "int")
                env["_seq"] = seq
            # ghost index / sequence of the enclosing for-loop (the iteration of it that is being executed)
            stack = getattr(fr, "loop_stack", [])
            if stack:
                env["_outer_it"] = SV(stack[-1][0], "int")
                env["_outer_seq"] = stack[-1][1]
            for k, x in pre_env.items():
                env["pre_" + k] = x
            tmp = St(state.guards, state.facts, env, state.heap, state.eff, state.epoch)
            out = []
            for cl in inv.clauses:
                out.append((cl.name, self.eval_clause(cl, tmp, spec_fr)))
            # implicit clause: declared element sorts of modified local containers are preserved
            for n in sorted(names):
                x = state.env.get(n)
                if x is not None and x.t is not None and x.pt in ("list", "set", "tuple"):
                    f = self.elem_type_fact(x.t, x.pt, self.attr_sort(n + "[]", fr))
                    if f is not None:
                        out.append((f"auto_elem_{n}", f))
            state.facts[:] = tmp.facts
            return out

        # 1. invariant holds on entry
        it0 = z3.IntVal(0) if kind == "for" else None
        for name, g in inv_clauses(st, it0):
            self.emit("inv-entry", f"loop{ordinal}.entry.{name}", list(st.guards) + list(st.facts), g, fr, s.lineno, "", None)
        # 2. arbitrary iteration
        h = st.copy()
        for n in names:
            if n in h.env and h.env[n].t is not None:
                old = h.env[n]
                h.env[n] = self.fresh_sv("lv_" + n, old.pt)
                if old.py and old.py[0] == "defaultdict":
                    h.env[n].py = old.py
                if old.pt not in NATIVE and old.pt != "any":
                    tyname = {"list": "list", "tuple": "tuple", "dict": "dict", "set": "set"}.get(old.pt)
                    if tyname:
                        h.facts.append(v.ty(h.env[n].t) == v.cls[tyname])
            elif n in h.env:
                raise Untranslatable(f"loop modifies python-level variable {n}")
        for a in attrs:
            h.heap[a] = self.fresh(f"H_{a}", z3.ArraySort(v.Val, v.Val))
        if st.eff is not None or self.block_has_effects(body):
            h.eff = self.fresh("eff", z3.IntSort())
        it = self.fresh("it", z3.IntSort()) if kind == "for" else None
        for name, g in inv_clauses(h, it):
            h.facts.append(z3.Implies(z3.And(h.guards) if h.guards else z3.BoolVal(True), g))
        exit_st = h.copy()
        outcomes: List[Outcome] = []
        if kind == "for":
            h.guards.append(z3.And(0 <= it, it < v.slen(seq.t)))
            exit_st.guards.append(it == v.slen(seq.t))
            self.bind_target(s.target, elem(it), h, fr)
        else:
            c = self.evb(s.test, h, fr)
            exit_st.facts[:] = h.facts
            exit_st.guards.append(z3.Not(c))
            h.guards.append(c)
        if not hasattr(fr, "loop_stack"):
            fr.loop_stack = []
        if kind == "for":
            fr.loop_stack.append((it, seq))
        try:
            body_outs = self.exec_block(body, h, fr)
        finally:
            if kind == "for":
                fr.loop_stack.pop()
        for o in body_outs:
            if o.kind in ("normal", "continue"):
                nit = it + 1 if kind == "for" else None
                for name, g in inv_clauses(o.st, nit):
                    self.emit("inv-step", f"loop{ordinal}.step.{name}", list(o.st.guards) + list(o.st.facts), g, fr, s.lineno, "", None)
            elif o.kind == "break":
                outcomes.append(Outcome("normal", o.st))
            else:
                outcomes.append(o)
        # 3. after the loop
        if kind == "for":
            # the loop variable keeps its last value only when the sequence was non-empty; not relied upon
            pass
        if s.orelse:
            outcomes += self.exec_block(s.orelse, exit_st, fr)
        else:
            outcomes.append(Outcome("normal", exit_st))
        return outcomes

    def block_has_effects(self, body):
        for s in body:
            for n in ast.walk(s):
                if isinstance(n, ast.Call) and isinstance(n.func, ast.Name) and n.func.id in ("print", "open"):
                    return True
        return False

    def callee_modifies(self, body, fr, env=None) -> set:
        """heap attributes that contracted callees invoked in the body may modify (by method name, conservatively)"""
        out = set()
        for s in body:
            for n in ast.walk(s):
                if isinstance(n, ast.Call):
                    name = n.func.attr if isinstance(n.func, ast.Attribute) else (n.func.id if isinstance(n.func, ast.Name) else None)
                    if not name:
                        continue
                    if isinstance(n.func, ast.Attribute) and isinstance(n.func.value, ast.Name) and env is not None:
                        rv = env.get(n.func.value.id)
                        if rv is not None and rv.pt in ("list", "set", "frozenset", "dict", "tuple", "str", "pylist", "pydict", "int", "bool"):
                            continue      # a method of a local builtin container, not of a repository object
                    for key, c in self.side.contracts.items():
                        parts = key.split("::")[-1].split(".")
                        if (parts[-1] == name or (parts[-1] == "__init__" and len(parts) > 1 and parts[-2] == name)) and c.modifies:
                            out |= {a for a in c.modifies if not a.startswith("*")}
        # write-once attributes are functions of their object (obligation write-once@<attr>): creating objects does not change them
        # for the objects that exist
        return out - set(self.side.write_once)
