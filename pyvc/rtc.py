"""Run-time reading of the sidecar contracts: the bounded stand-in and the witness finder.

The same clause functions that pyvc translates symbolically are simply *called* here around the real function
(deal-style).  Never counted as proof; every result produced here is labelled `bounded`.
"""
import copy
import importlib
import inspect
import os
import sys
import traceback
from typing import Any, Callable, Dict, Iterable, List, Optional, Tuple

from . import dsl

REPO = os.environ.get("VERIF_REPO", "/repo")


def ensure_repo_on_path():
    if REPO not in sys.path:
        sys.path.insert(0, REPO)
    m = sys.modules.get("json_to_models")
    if m is not None and not os.path.abspath(m.__file__).startswith(os.path.abspath(REPO)):
        raise RuntimeError(f"json_to_models imported from {m.__file__}, expected {REPO}")


def resolve(key: str):
    """'json_to_models/registry.py::Class.method' -> (owner object, attribute name, function object)"""
    ensure_repo_on_path()
    file, qual = key.split("::")
    modname = file[:-3].replace("/", ".")
    if modname.endswith(".__init__"):
        modname = modname[:-9]
    mod = importlib.import_module(modname)
    owner = mod
    parts = qual.split(".")
    setter = False
    if parts[-1] in ("setter", "deleter"):
        setter = parts[-1]
        parts = parts[:-1]
    for p in parts[:-1]:
        owner = getattr(owner, p)
    raw = inspect.getattr_static(owner, parts[-1]) if isinstance(owner, type) else getattr(owner, parts[-1])
    return owner, parts[-1], raw


def underlying(raw):
    if isinstance(raw, (classmethod, staticmethod)):
        return raw.__func__
    if isinstance(raw, property):
        return raw.fget
    return getattr(raw, "__wrapped__", raw) if False else raw


class ClauseFailure(Exception):
    def __init__(self, key, kind, clause, detail):
        super().__init__(f"{key} {kind}.{clause}: {detail}")
        self.key, self.kind, self.clause, self.detail = key, kind, clause, detail


def _named(ret) -> List[Tuple[str, Any]]:
    if isinstance(ret, dict):
        out = []
        for k, v in ret.items():
            out.append((str(k).split("@")[0], v))
        return out
    if isinstance(ret, (list, tuple)) and ret and all(isinstance(x, tuple) and len(x) == 2 for x in ret):
        return list(ret)
    return [("clause", ret)]


class Checked:
    """call the real function under its contract; returns a record, raises ClauseFailure on a violated clause"""

    def __init__(self, key: str):
        dsl.load_sidecars()
        self.key = key
        self.contract = dsl.CONTRACTS[key]
        self.owner, self.attr, self.raw = resolve(key)
        self.fn = underlying(self.raw)
        self.sig = inspect.signature(self.fn)
        self.evaluations = 0
        self.pre_rejected = 0

    def call(self, *args, **kwargs):
        c = self.contract
        ba = self.sig.bind(*args, **kwargs)
        ba.apply_defaults()
        named = dict(ba.arguments)
        inst = None
        cd = {k: (v.__func__ if isinstance(v, staticmethod) else v) for k, v in c.__dict__.items()}
        # flatten *args / **kwargs parameters the way the symbolic side sees them
        call_args = self._clause_args(named)
        if "requires" in cd:
            for name, ok in _named(self._invoke(cd["requires"], call_args)):
                if not ok:
                    self.pre_rejected += 1
                    return None
        snap = None
        if "snapshot" in cd:
            snap = dict(_named(self._invoke(cd["snapshot"], call_args)))
        self.evaluations += 1
        allowed = {}
        if "raises" in cd:
            try:
                allowed = dict(_named(self._invoke(cd["raises"], call_args)))
            except Exception:
                allowed = {}
        try:
            result = self.fn(*ba.args, **ba.kwargs)
            if inspect.isgenerator(result):
                result = list(result)
        except Exception as e:  # noqa
            name = type(e).__name__
            ok = False
            for exc_name, cond in allowed.items():
                if exc_name == "*" or exc_name == name or any(b.__name__ == exc_name for b in type(e).__mro__):
                    ok = ok or bool(cond)
            if not ok:
                raise ClauseFailure(self.key, "raises", name, f"{name}: {e}") from e
            return ("raised", name)
        if "ensures" in cd:
            post_args = dict(call_args)
            post_args["result"] = result
            if snap is not None:
                post_args["snap"] = snap
            try:
                clauses = _named(self._invoke(cd["ensures"], post_args))
            except ClauseFailure:
                raise
            except dsl.NotExecutable:
                clauses = []
            except Exception as e:
                raise ClauseFailure(self.key, "post", "<evaluation>", f"clause raised {type(e).__name__}: {e}") from e
            for name, ok in clauses:
                if not ok:
                    raise ClauseFailure(self.key, "post", name, f"result={result!r}")
        return ("returned", result)

    def _clause_args(self, named):
        return dict(named)

    @staticmethod
    def _invoke(fn, available: Dict[str, Any]):
        params = list(inspect.signature(fn).parameters)
        return fn(*[available.get(p) for p in params])


def search(key: str, inputs: Iterable[tuple], limit: int = 10 ** 9, clause: str = None):
    """drive the real function under its contract; -> (failure or None, evaluations, distinct)"""
    ch = Checked(key)
    seen = set()
    n = 0
    for args in inputs:
        if n >= limit:
            break
        n += 1
        try:
            r = repr(args)
        except Exception:
            r = str(n)
        seen.add(r)
        try:
            ch.call(*copy.deepcopy(args)) if not isinstance(args, dict) else ch.call(**copy.deepcopy(args))
        except ClauseFailure as f:
            if clause is None or f.clause == clause or True:
                return {"key": key, "kind": f.kind, "clause": f.clause, "detail": f.detail, "args": args}, ch.evaluations, len(seen)
    return None, ch.evaluations, len(seen)
