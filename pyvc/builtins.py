"""ev_Call: builtins, container methods, spec functions, contract application (part of the Engine)."""
import ast
from typing import Dict, List, Optional

import z3

from .sym import SV, St, Untranslatable, NATIVE, Outcome
from .expr import Frame
from .sym import St


class BuiltinMixin:
    # ------------------------------------------------------------------ call entry
    def ev_Call(self, node, st, fr):
        fn = node.func
        # spec-level / builtin functions by bare name
        if isinstance(fn, ast.Name) and fn.id not in st.env and fn.id not in fr.closures:
            name = fn.id
            h = getattr(self, "bi_" + name, None)
            if h is not None and (name not in self.SPEC_ONLY or fr.kind == "spec"):
                return h(node, st, fr)
            if fr.kind == "spec" and (name in self.side.elem_preds or (name.startswith("all_") and name[4:] in self.side.elem_preds)):
                return self.elem_pred_call(name, node, st, fr)
            if fr.kind == "spec" and name in self.side.specs_rec:
                macro = self.side.specs_rec[name]
                nparams = len(macro.args.args)
                f = self.voc.fn("spec_" + name, *([self.voc.Val] * nparams + [z3.BoolSort()]))
                done = self.__dict__.setdefault("_specrec_done", set())
                if name not in done:
                    done.add(name)
                    bvs = [self.bv("sp_" + a.arg) for a in macro.args.args]
                    tmp = St()
                    for a_, b_ in zip(macro.args.args, bvs):
                        tmp.env[a_.arg] = SV(b_, "any")
                    sfr = Frame(fr.fi, fr.contract, fr.cls, kind="spec")
                    self.init_frame(sfr)
                    body = None
                    for stmt_ in macro.body:
                        if isinstance(stmt_, ast.Assign):
                            self.assign_place(stmt_.targets[0], self.ev(stmt_.value, tmp, sfr), tmp, sfr)
                        elif isinstance(stmt_, ast.Return):
                            body = self.evb(stmt_.value, tmp, sfr)
                    if tmp.facts:
                        # facts mentioning fresh constants cannot be generalised over the predicate's parameters: refuse
                        raise Untranslatable(f"recursive spec predicate {name}: body is not fact-free ({str(tmp.facts[0])[:80]})")
                    self.add_global_fact(z3.ForAll(bvs, f(*bvs) == body, patterns=[f(*bvs)]))
                args = [self.box(self.ev(a, st, fr)) for a in node.args]
                return SV(f(*args), "bool")
            if fr.kind == "spec" and name in self.side.specs:
                macro = self.side.specs[name]
                args = [self.ev(a, st, fr) for a in node.args]
                saved = st.env
                st.env = dict(saved)
                for p_, a_ in zip(macro.args.args, args):
                    st.env[p_.arg] = a_
                try:
                    for stmt_ in macro.body:
                        if isinstance(stmt_, ast.Assign):
                            self.assign_place(stmt_.targets[0], self.ev(stmt_.value, st, fr), st, fr)
                        elif isinstance(stmt_, ast.Return):
                            return self.ev(stmt_.value, st, fr)
                    raise Untranslatable(f"spec macro {name} without return")
                finally:
                    st.env = saved
        if isinstance(fn, ast.Attribute) and fn.attr == "render":
            tmpl = self.ev(fn.value, st, fr)
            if tmpl.pt == "obj:Template":
                kw = {k.arg: self.ev(k.value, st, fr) for k in node.keywords}
                d = self.voc.dempty
                for k in sorted(kw):
                    d = self.voc.dset(d, self.voc.S2V(z3.StringVal(k)), self.box(kw[k]))
                return self.call_named("jinja2.Template.render", [tmpl, SV(d, "dict")], {}, st, fr, node)
        if isinstance(fn, ast.Attribute) and fn.attr == "write":
            target = self.ev(fn.value, st, fr)
            if target.pt == "obj:file":
                text = self.ev(node.args[0], st, fr)
                self.effect(st, fr, "write", node)
                st.env["$written"] = text
                return SV(self.voc.NONE, "none")
        if isinstance(fn, ast.Attribute) and ("str." + fn.attr) in self.side.assumed and fn.attr not in ("replace",) :
            recv = self.ev(fn.value, st, fr)
            if recv.pt == "any":
                self.typing_assumptions += 1          # receiver of a str-only method is viewed as a str
                return self.str_method(self.unbox(recv, "str"), fn.attr, [self.ev(a, st, fr) for a in node.args], {}, st, fr, node)
        if isinstance(fn, ast.Attribute) and ("clsmethod:" + fn.attr) in self.side.assumed:
            recv = self.ev(fn.value, st, fr)
            if recv.pt == "class" and not (recv.py and recv.py[0] == "class"):
                args, kwargs = self.eval_args(node, st, fr)
                return self.call_named("clsmethod:" + fn.attr, [recv] + args, kwargs, st, fr, node)
        if isinstance(fn, ast.Attribute) and ("method:" + fn.attr) in self.side.assumed:
            recv = self.ev(fn.value, st, fr)
            if (recv.pt == "any" and self.unique_method_root(fn.attr) is None) or recv.pt.startswith("obj:"):
                if not (self.static_class(recv) and self.repo.find_method(self.static_class(recv), fn.attr)):
                    args, kwargs = self.eval_args(node, st, fr)
                    return self.call_named("method:" + fn.attr, [recv] + args, kwargs, st, fr, node)
        callee = self.ev(fn, st, fr)
        if callee.pt == "any" and isinstance(fn, ast.Attribute) and ("attr:" + fn.attr) in self.side.assumed:
            args, kwargs = self.eval_args(node, st, fr)
            return self.call_named("attr:" + fn.attr, [callee] + args, kwargs, st, fr, node)
        if callee.pt == "any" and isinstance(fn, ast.Name) and ("param:" + fn.id) in self.side.assumed:
            args, kwargs = self.eval_args(node, st, fr)
            if "**" in kwargs:
                args = args + [kwargs.pop("**")]
            # f(x, *rest): the unpacked sequence is passed to the contract as one argument
            args = [(a_.py[1] if a_.pt == "star" else a_) for a_ in args]
            return self.call_named("param:" + fn.id, [callee] + args, kwargs, st, fr, node)
        if callee.pt == "pyfunc":
            kind = callee.py[0]
            if kind == "method":
                return self.container_method(callee.py[1], callee.py[2], node, st, fr)
            args, kwargs = self.eval_args(node, st, fr)
            if kind == "bound":
                return self.dispatch(callee.py[1], callee.py[3], callee.py[2], args, kwargs, st, fr, node)
            if kind == "classmethod":
                m = callee.py[2]
                if "classmethod" in m.decorators or any("cached_classmethod" in d for d in m.decorators):
                    return self.call_function(m, [callee.py[1]] + args, kwargs, st, fr, node)
                if "staticmethod" in m.decorators:
                    return self.call_function(m, args, kwargs, st, fr, node)
                return self.call_function(m, args, kwargs, st, fr, node)     # Class.method(self, ...)
            if kind == "supermethod":
                cls = callee.py[1]
                mro = self.repo.classes[cls].mro
                for c in mro[1:]:
                    ci = self.repo.classes.get(c)
                    if ci and callee.py[2] in ci.methods:
                        return self.call_function(ci.methods[callee.py[2]], [st.env["self"]] + args, kwargs, st, fr, node)
                if callee.py[2] == "__init__":
                    return SV(self.voc.NONE, "none")
                raise Untranslatable(f"super().{callee.py[2]} not found")
            if kind == "closure":
                return self.call_closure(callee.py[1], args, kwargs, st, fr, node)
            if kind == "lambda":
                return self.apply_lambda(callee, args, st, fr)
            if kind == "name":
                # f(*xs) on an external: the unpacked sequence is one argument of its contract
                args = [(a_.py[1] if a_.pt == "star" else a_) for a_ in args]
                return self.call_named(callee.py[1], args, kwargs, st, fr, node)
            if kind == "func":
                return self.call_function(callee.py[1], args, kwargs, st, fr, node)
            if kind == "extmethod":
                return self.call_named("method:" + callee.py[2], [callee.py[1]] + args, kwargs, st, fr, node)
        if callee.pt == "class":
            args, kwargs = self.eval_args(node, st, fr)
            return self.construct(callee, args, kwargs, st, fr, node)
        raise Untranslatable(f"call of {ast.unparse(fn)[:60]} ({callee.pt})")

    def dispatch(self, obj: SV, mname: str, static_impl, args, kwargs, st, fr, node):
        """closed-world dynamic dispatch: one case per distinct implementation among the subclasses of the static class"""
        cls = self.static_class(obj)
        impls = {}
        if cls is not None:
            for sub in self.voc.subclasses_of(cls.replace(".", "__")):
                m = self.repo.find_method(sub.replace("__", "."), mname)
                if m is not None:
                    impls.setdefault(m.key, (m, []))[1].append(sub)
        base_c = self.side.contracts.get(static_impl.key)
        if len(impls) <= 1 or (base_c is not None and base_c.opts.get("covers_overrides")):
            if base_c is not None and base_c.opts.get("covers_overrides") and len(impls) > 1:
                self.used_assumptions.add(f"overrides of {static_impl.key.split('::')[-1]} satisfy the base contract (behavioural subtyping, not re-verified per override)")
            return self.call_function(static_impl, [obj] + args, kwargs, st, fr, node)
        res = None
        ov = self.box(obj)
        for key, (m, subs) in sorted(impls.items()):
            g = z3.Or([self.voc.ty(ov) == self.voc.cls[s_] for s_ in subs])
            o2 = SV(obj.t, "obj:" + subs[0].replace("__", ".")) if len(subs) == 1 else obj
            r = self.under(st, g, lambda m=m, o2=o2: self.call_function(m, [o2] + args, dict(kwargs), st, fr, node))
            res = r if res is None else self.ite(g, r, res)
        return res

    def eval_args(self, node, st, fr):
        args = []
        for a in node.args:
            if isinstance(a, ast.Starred):
                inner = self.ev(a.value, st, fr)
                if inner.py and inner.py[0] == "items":
                    args.extend(inner.py[1])
                else:
                    args.append(SV(None, "star", py=("star", self.as_seq(inner, st, fr, a))))
            else:
                args.append(self.ev(a, st, fr))
        kwargs = {}
        for k in node.keywords:
            if k.arg is None:
                inner = self.ev(k.value, st, fr)
                if inner.pt in ("pydict", "dict") and inner.py and inner.py[0] == "pairs":
                    for kk, vv in inner.py[1]:
                        kwargs[z3.simplify(kk.t).as_string()] = vv
                else:
                    kwargs["**"] = inner
            else:
                kwargs[k.arg] = self.ev(k.value, st, fr)
        return args, kwargs

    # ------------------------------------------------------------------ python builtins
    def bi_len(self, node, st, fr):
        x = self.ev(node.args[0], st, fr)
        return SV(self.length(x, st, fr, node), "int")

    def length(self, x: SV, st, fr, node):
        v = self.voc
        if x.t is not None and z3.is_app(x.t) and x.t.decl().kind() == z3.Z3_OP_ITE and x.pt in ("list", "tuple", "set", "frozenset", "dict", "str"):
            c_, a_, b_ = x.t.children()
            return z3.If(c_, self.length(SV(a_, x.pt), st, fr, node), self.length(SV(b_, x.pt), st, fr, node))
        if x.pt == "str":
            return z3.Length(x.t)
        if x.pt in ("list", "tuple"):
            return v.slen(x.t)
        if x.pt in ("set", "frozenset"):
            return v.card(x.t)
        if x.pt == "dict":
            return v.dlen(x.t)
        if x.pt == "pylist":
            return z3.IntVal(len(self.py_items(x)))
        if x.pt == "pydict":
            return z3.IntVal(len(x.py[1]))
        cls = self.static_class(x)
        if cls:
            m = self.repo.find_method(cls, "__len__")
            if m is not None:
                return self.unbox(self.call_function(m, [x], {}, st, fr, node), "int").t
        if x.pt == "any":
            # dispatch on the run-time class over the repository classes that define __len__; anything else has some length >= 0
            definers = [c for c, ci in self.repo.classes.items() if "." not in c and "__len__" in ci.methods]
            roots = [c for c in definers if not any(d != c and d in self.repo.classes[c].mro for d in definers)]
            res = self.fresh("len", z3.IntSort())
            st.facts.append(res >= 0)
            for r in roots:
                cond = v.isinstance_(self.box(x), r)
                got = self.under(st, cond, lambda r=r: self.unbox(self.call_function(self.repo.find_method(r, "__len__"), [SV(x.t, "obj:" + r)], {}, st, fr, node), "int").t)
                res = z3.If(cond, got, res)
            return res
        raise Untranslatable(f"len of {x.pt}")

    def class_names_of(self, node, st, fr) -> List[str]:
        """second argument of isinstance/issubclass -> list of class keys"""
        if isinstance(node, ast.Tuple):
            out = []
            for e in node.elts:
                out += self.class_names_of(e, st, fr)
            return out
        sv = self.ev(node, st, fr)
        if sv.pt == "class" and sv.py and sv.py[0] == "class":
            return [sv.py[1]]
        if sv.py and sv.py[0] == "items":
            return [x.py[1] for x in sv.py[1]]
        raise Untranslatable(f"isinstance with non-constant class {ast.unparse(node)}")

    def bi_isinstance(self, node, st, fr):
        x = self.ev(node.args[0], st, fr)
        names = self.class_names_of(node.args[1], st, fr)
        if x.pt in NATIVE:
            ok = any(x.pt in self.voc._builtin_mro(n) or n == x.pt or n == "object" or (x.pt == "bool" and n == "int") for n in names)
            return SV(z3.BoolVal(ok), "bool")
        xv = self.box(x)
        return SV(z3.Or([self.voc.isinstance_(xv, n) for n in names]), "bool")

    def bi_issubclass(self, node, st, fr):
        x = self.ev(node.args[0], st, fr)
        names = self.class_names_of(node.args[1], st, fr)
        v = self.voc
        c = v.cls_of(self.box(x))
        return SV(z3.Or([c == v.cls[s] for n in names for s in v.subclasses_of(n)]), "bool")

    def bi_isclass(self, node, st, fr):
        x = self.ev(node.args[0], st, fr)
        if x.pt in NATIVE:
            return SV(z3.BoolVal(False), "bool")
        return SV(self.voc.ty(self.box(x)) == self.voc.cls["type"], "bool")

    def bi_type(self, node, st, fr):
        x = self.ev(node.args[0], st, fr)
        if x.pt in NATIVE:
            return self.class_value(x.pt)
        return SV(self.voc.clsobj(self.voc.ty(self.box(x))), "class")

    def bi_bool(self, node, st, fr):
        return SV(self.evb(node.args[0], st, fr), "bool")

    def bi_int(self, node, st, fr):
        x = self.ev(node.args[0], st, fr)
        if x.pt == "int":
            return x
        if x.pt == "bool":
            return self.unbox(x, "int")
        if x.pt == "str":
            # int(s) on a str: z3's str.to_int (non-negative decimal numerals); anything else raises ValueError
            n = z3.StrToInt(x.t)
            self.may_raise(st, fr, "ValueError", n >= 0, node, "int-of-str")
            return SV(n, "int")
        if x.pt == "any":
            return self.call_named("builtins.int", [x], {}, st, fr, node)
        raise Untranslatable("int()")

    def bi_str(self, node, st, fr):
        if not node.args:
            return SV(z3.StringVal(""), "str")
        x = self.ev(node.args[0], st, fr)
        return SV(self.to_str(x), "str")

    def bi_set(self, node, st, fr):
        if not node.args:
            return SV(self.voc.sempty, "set")
        x = self.ev(node.args[0], st, fr)
        return SV(self.as_set(x, st, fr, node).t, "set")

    bi_frozenset = bi_set

    def bi_list(self, node, st, fr):
        if not node.args:
            return SV(self.voc.snil, "list")
        x = self.ev(node.args[0], st, fr)
        s = self.as_seq(x, st, fr, node.args[0])
        return SV(s.t, "list", py=s.py if s.py and s.py[0] in ("comp",) else None)

    def bi_tuple(self, node, st, fr):
        if not node.args:
            return SV(self.voc.tnil, "tuple")
        x = self.ev(node.args[0], st, fr)
        return SV(self.as_seq(x, st, fr, node.args[0]).t, "tuple")

    def bi_dict(self, node, st, fr):
        if not node.args and not node.keywords:
            return SV(self.voc.dempty, "dict")
        if not node.args:
            pairs = [(SV(z3.StringVal(k.arg), "str"), self.ev(k.value, st, fr)) for k in node.keywords]
            cur = self.voc.dempty
            for k, x in pairs:
                cur = self.voc.dset(cur, self.box(k), self.box(x))
            return SV(cur, "dict", py=("pairs", pairs))
        raise Untranslatable("dict(...) with positional argument")

    def bi_defaultdict(self, node, st, fr):
        """collections.defaultdict(int | set | list): a dict whose missing keys read as 0 / empty set / empty list
        (that a read also inserts the key is not modelled: only relevant to later iteration, noted in the evidence)"""
        kind = node.args[0].id if node.args and isinstance(node.args[0], ast.Name) else None
        if kind not in ("int", "set", "list"):
            raise Untranslatable("defaultdict factory")
        self.used_assumptions.add("defaultdict: a read of a missing key yields the default but the implicit insertion is not modelled")
        return SV(self.voc.dempty, "dict", py=("defaultdict", kind))

    def bi_iter(self, node, st, fr):
        x = self.ev(node.args[0], st, fr)
        s = self.as_seq(x, st, fr, node.args[0])
        return SV(s.t, "list", py=("iter", s))

    def bi_next(self, node, st, fr):
        x = self.ev(node.args[0], st, fr)
        s = self.as_seq(x, st, fr, node.args[0])
        self.may_raise(st, fr, "StopIteration", self.voc.slen(s.t) > 0, node, "next")
        return SV(self.voc.sat(s.t, z3.IntVal(0)), "any")

    def quant_over(self, node, st, fr, combine):
        """any/all over a comprehension, a map(...) or a collection"""
        arg = node.args[0]
        v = self.voc
        if isinstance(arg, (ast.GeneratorExp, ast.ListComp)) and len(arg.generators) == 1:
            g = arg.generators[0]
            src = self.ev(g.iter, st, fr)
            if src.pt in ("pylist", "pydict") or (src.py and src.py[0] == "items"):
                vals = []
                saved = dict(st.env)
                for it in (self.py_items(src) if src.pt != "pydict" else [k for k, _ in src.py[1]]):
                    self.bind_target(g.target, it, st, fr)
                    c = [self.evb(x, st, fr) for x in g.ifs]
                    b = self.evb(arg.elt, st, fr)
                    vals.append((z3.And(c + [b]) if combine == "any" else z3.Implies(z3.And(c), b)) if c else b)
                st.env = saved
                return SV((z3.Or(vals) if combine == "any" else z3.And(vals)) if vals else z3.BoolVal(combine == "all"), "bool")
            seq = self.as_seq(src, st, fr, g.iter)
            pred = lambda elem: self._pred_body(g, arg.elt, elem, st, fr)
            return SV(self.quantify(seq, pred, combine, st, fr, self.elem_sort(g.iter, fr)), "bool")
        if isinstance(arg, ast.Call) and isinstance(arg.func, ast.Name) and arg.func.id == "map" and len(arg.args) == 2:
            f = self.ev(arg.args[0], st, fr)
            src = self.ev(arg.args[1], st, fr)
            seq = self.as_seq(src, st, fr, arg.args[1])
            pred = lambda elem: self.truth(self.apply_callable(f, [elem], st, fr, arg))
            return SV(self.quantify(seq, pred, combine, st, fr, self.elem_sort(arg.args[1], fr)), "bool")
        src = self.ev(arg, st, fr)
        if src.py and src.py[0] == "comp":
            _, seq, e, j0, val, cond, body_facts, rpt = src.py
            pred = lambda elem: z3.substitute(self.truth(val), (e, self.box(elem)))
            if z3.is_true(z3.simplify(cond)) and not body_facts:
                return SV(self.quantify(seq, pred, combine, st, fr, "any"), "bool")
        seq = self.as_seq(src, st, fr, arg)
        return SV(self.quantify(seq, lambda elem: self.truth(elem), combine, st, fr, "any"), "bool")

    def _pred_body(self, g, elt, elem, st, fr):
        saved = dict(st.env)
        self.bind_target(g.target, elem, st, fr)
        cs = [self.evb(c, st, fr) for c in g.ifs]
        b = self.evb(elt, st, fr)
        st.env = saved
        if cs:
            return ("filtered", z3.And(cs), b)
        return b

    def quantify(self, seq: SV, pred, combine, st, fr, esort="any"):
        """exists/forall over the elements of a list, as a quantifier over the index"""
        v = self.voc
        if z3.is_app(seq.t) and seq.t.decl().kind() == z3.Z3_OP_ITE:
            # quantifier over a conditional container: distribute, so that triggers see the real terms
            c, a, b = seq.t.children()
            qa = self.under(st, c, lambda: self.quantify(SV(a, seq.pt), pred, combine, st, fr, esort))
            qb = self.under(st, z3.Not(c), lambda: self.quantify(SV(b, seq.pt), pred, combine, st, fr, esort))
            return z3.If(c, qa, qb)
        seq = SV(self.named(seq.t, st), seq.pt, seq.py)
        j = self.fresh("qj", z3.IntSort())
        n_f = len(st.facts)
        elem = self.with_sort(v.sat(seq.t, j), esort)
        rng = z3.And(0 <= j, j < v.slen(seq.t))
        st.guards.append(rng)
        try:
            b = pred(elem)
        finally:
            st.guards.pop()
        new_facts = st.facts[n_f:]
        del st.facts[n_f:]
        if isinstance(b, tuple):
            _, c, body = b
            b = z3.And(c, body) if combine == "any" else z3.Implies(c, body)
        jj = self.bv("qi", z3.IntSort())
        sub = lambda f: z3.substitute(f, (j, jj))
        for f in new_facts:       # facts produced while evaluating the predicate hold for every index
            st.facts.append(z3.ForAll([jj], z3.Implies(sub(rng), sub(f)), patterns=[v.sat(seq.t, jj)]))
        if combine == "any":
            ex = z3.Exists([jj], z3.And(sub(rng), sub(b)), patterns=[v.sat(seq.t, jj)])
            # logically redundant ground candidates (last / first element) so that E-matching has a witness term at hand
            n = v.slen(seq.t)
            at_ = lambda k: z3.substitute(z3.And(rng, b), (j, k))
            return z3.Or(ex, at_(n - 1), at_(z3.IntVal(0)))
        return z3.ForAll([jj], z3.Implies(sub(rng), sub(b)), patterns=[v.sat(seq.t, jj)])

    def bi_any(self, node, st, fr):
        return self.quant_over(node, st, fr, "any")

    def bi_all(self, node, st, fr):
        return self.quant_over(node, st, fr, "all")

    def apply_callable(self, f: SV, args: List[SV], st, fr, node) -> SV:
        if f.pt == "pyfunc":
            k = f.py[0]
            if k == "lambda":
                return self.apply_lambda(f, args, st, fr)
            if k == "bound":
                return self.call_function(f.py[2], [f.py[1]] + args, {}, st, fr, node)
            if k == "method":
                fake = ast.Call(func=ast.Name(id="_", ctx=ast.Load()), args=[], keywords=[])
                return self.container_method(f.py[1], f.py[2], fake, st, fr, pre_args=args)
            if k == "name":
                return self.call_named(f.py[1], args, {}, st, fr, node)
            if k == "closure":
                return self.call_closure(f.py[1], args, {}, st, fr, node)
            if k == "func":
                return self.call_function(f.py[1], args, {}, st, fr, node)
            if k == "extmethod":
                return self.call_named("method:" + f.py[2], [f.py[1]] + args, {}, st, fr, node)
        if f.pt == "class":
            return self.construct(f, args, {}, st, fr, node)
        raise Untranslatable("apply of non-callable")

    def apply_lambda(self, f: SV, args: List[SV], st, fr):
        lam, env = f.py[1], f.py[2]
        saved = st.env
        st.env = dict(env)
        for p, a in zip(lam.args.args, args):
            st.env[p.arg] = a
        # free names captured later (e.g. self) fall back to the current env
        for k, x in saved.items():
            st.env.setdefault(k, x)
        try:
            return self.ev(lam.body, st, fr)
        finally:
            st.env = saved

    def bi_getattr(self, node, st, fr):
        obj = self.ev(node.args[0], st, fr)
        if not isinstance(node.args[1], ast.Constant):
            # getattr(x, <computed name>): an opaque lookup, a function of the object and the name
            nm = self.ev(node.args[1], st, fr)
            f = self.voc.fn("getattr_dyn", self.voc.Val, self.voc.Val, self.voc.Val)
            return SV(f(self.box(obj), self.box(nm)), "any")
        name = ast.literal_eval(node.args[1])
        if obj.pt == "tlocal" and len(node.args) == 3:
            return self.tl_get(obj, name, st, fr, self.box(self.ev(node.args[2], st, fr)))
        # getattr(self, '_hash', None): slot may be unset -> default; modelled as "None when unset" = plain read
        return self.get_attr(obj, name, st, fr, node)

    def bi_setattr(self, node, st, fr):
        if not isinstance(node.args[1], ast.Constant) or not isinstance(node.args[1].value, str):
            raise Untranslatable("setattr with a computed name")
        target = ast.Attribute(value=node.args[0], attr=node.args[1].value, ctx=ast.Store())
        ast.copy_location(target, node)
        self.assign_place(target, self.ev(node.args[2], st, fr), st, fr)
        return SV(self.voc.NONE, "none")

    def bi_hasattr(self, node, st, fr):
        obj = self.ev(node.args[0], st, fr)
        name = ast.literal_eval(node.args[1])
        if name == "keys":
            if obj.pt == "dict":
                return SV(z3.BoolVal(True), "bool")
            if obj.pt in NATIVE or obj.pt in ("list", "set", "class"):
                return SV(z3.BoolVal(False), "bool")
            return SV(self.voc.isinstance_(self.box(obj), "dict"), "bool")
        raise Untranslatable(f"hasattr(..., {name!r})")

    def bi_sorted(self, node, st, fr):
        src = self.ev(node.args[0], st, fr)
        v = self.voc
        seq = self.as_seq(src, st, fr, node.args[0]) if src.pt != "set" else None
        # sorted(xs): a permutation of xs, ordered; modelled as an uninterpreted function of the *set/list* argument
        # (so the result does not depend on iteration order of a set: that is the theorem "sorting is canonical",
        # valid when the key is injective on the elements - strings / distinct keys).
        if node.keywords:
            raise Untranslatable("sorted with key")
        f = v.fn("sorted_of", v.Val, v.Val)
        base = src.t if src.pt in ("set", "frozenset") else (v.set_of_seq(seq.t) if seq is not None else None)
        arg = src.t if src.pt in ("set", "frozenset") else seq.t
        r = f(arg)
        x = self.bv("x")
        st.facts.append(z3.ForAll([x], v.shas(r, x) == (v.has(arg, x) if src.pt in ("set", "frozenset") else v.shas(arg, x)), patterns=[v.shas(r, x)]))
        st.facts.append(v.slen(r) == (v.card(arg) if src.pt in ("set", "frozenset") else v.slen(arg)))
        st.facts.append(v.ty(r) == v.cls["list"])
        return SV(r, "list", py=("sorted", src))

    def bi_super(self, node, st, fr):
        return SV(None, "pyfunc", py=("super", fr.cls))

    def bi_print(self, node, st, fr):
        for a in node.args:
            self.ev(a, st, fr)
        self.effect(st, fr, "print", node)
        return SV(self.voc.NONE, "none")

    def effect(self, st, fr, what, node):
        st.eff = (st.eff if st.eff is not None else z3.IntVal(0)) + 1
        fr.effects.append((what, getattr(node, "lineno", 0)))

    # ------------------------------------------------------------------ spec-only functions (contract language)
    SPEC_ONLY = {"card", "implies", "iff", "forall", "exists", "subset", "set_eq", "old", "is_class", "keys_of", "unchanged_except",
                 "ty_is", "same_class", "unchanged", "fresh_obj", "no_effects", "effects", "attr", "sel", "tuple2", "sval", "ival",
                 "local", "list_subset", "list_subset_except", "attr_bool", "dict_values", "word_only", "digit_start", "box_str", "tail", "type_arg", "type_args", "sub_accepts", "attr_set", "accepts", "matches", "is_json", "as_set_of", "distinct", "cls_name", "clsattr", "written_text", "opened_path", "ext", "box_bool", "tl_get", "raw_tq_ok", "is_blank", "attr_of", "eq_str", "mro_of", "as_dict", "as_list", "as_set", "seq_len", "dict_len", "truthy", "dict_get", "pyeval_str", "at", "is_none"}
    SPEC_CONSTS = {}

    def bi_card(self, node, st, fr):
        x = self.ev(node.args[0], st, fr)
        if x.pt in ("set", "frozenset"):
            return SV(self.voc.card(x.t), "int")
        return SV(self.length(x, st, fr, node), "int")

    def bi_implies(self, node, st, fr):
        a = self.evb(node.args[0], st, fr)
        b = self.under(st, a, lambda: self.evb(node.args[1], st, fr))
        return SV(z3.Implies(a, b), "bool")

    def bi_iff(self, node, st, fr):
        return SV(self.evb(node.args[0], st, fr) == self.evb(node.args[1], st, fr), "bool")

    def bi_subset(self, node, st, fr):
        a = self.as_set(self.ev(node.args[0], st, fr), st, fr, node)
        b = self.as_set(self.ev(node.args[1], st, fr), st, fr, node)
        return SV(self.voc.subset(a.t, b.t), "bool")

    def bi_set_eq(self, node, st, fr):
        a = self.as_set(self.ev(node.args[0], st, fr), st, fr, node)
        b = self.as_set(self.ev(node.args[1], st, fr), st, fr, node)
        return SV(z3.And(self.voc.subset(a.t, b.t), self.voc.subset(b.t, a.t)), "bool")

    def bi_is_class(self, node, st, fr):
        return self.bi_isclass(node, st, fr)

    def _quant_spec(self, node, st, fr, combine):
        coll = self.ev(node.args[0], st, fr)
        lam = node.args[1]
        if not isinstance(lam, ast.Lambda):
            raise Untranslatable("forall/exists needs a lambda")
        v = self.voc
        param = lam.args.args[0].arg
        saved = dict(st.env)
        try:
            if coll.pt in ("set", "frozenset", "dict") and z3.is_app(coll.t) and coll.t.decl().kind() == z3.Z3_OP_ITE:
                c_, a_, b_ = coll.t.children()

                def branch(t_):
                    fake = ast.Call(func=node.func, args=[ast.Name(id="$coll", ctx=ast.Load()), lam], keywords=[])
                    st.env["$coll"] = SV(t_, coll.pt)
                    return self._quant_spec(fake, st, fr, combine).t
                qa = self.under(st, c_, lambda: branch(a_))
                qb = self.under(st, z3.Not(c_), lambda: branch(b_))
                return SV(z3.If(c_, qa, qb), "bool")
            if coll.pt in ("set", "frozenset", "dict"):
                coll = SV(self.named(coll.t, st), coll.pt, coll.py)
                x = self.fresh("qx")
                st.env[param] = self.with_sort(x, self.elem_sort(node.args[0], fr) if coll.pt != "dict" else "any")
                n_f = len(st.facts)
                body = self.evb(lam.body, st, fr)
                new = st.facts[n_f:]
                del st.facts[n_f:]
                xx = self.bv("qv")
                mem = v.has(coll.t, xx) if coll.pt != "dict" else v.dhas(coll.t, xx)
                sub = lambda f: z3.substitute(f, (x, xx))
                pats = [mem]
                if len(node.args) > 2 and isinstance(node.args[2], ast.Lambda):
                    # explicit trigger: forall(coll, lambda x: body, lambda x: <term whose occurrence should fire the instance>)
                    tl = node.args[2]
                    st.env[tl.args.args[0].arg] = st.env[param]
                    trig = self.ev(tl.body, st, fr)
                    tt = trig.t if trig.pt in ("bool",) or trig.t is not None else None
                    from .sym import pattern_safe
                    if tt is not None and pattern_safe(sub(tt)):
                        pats = [sub(tt)]
                for f in new:
                    st.facts.append(z3.ForAll([xx], z3.Implies(mem, sub(f)), patterns=pats))
                if combine == "all":
                    return SV(z3.ForAll([xx], z3.Implies(mem, sub(body)), patterns=pats), "bool")
                return SV(z3.Exists([xx], z3.And(mem, sub(body)), patterns=pats), "bool")
            if coll.pt == "range":
                lo, hi = coll.py
                jv = self.fresh("qj", z3.IntSort())
                st.env[param] = SV(jv, "int")
                n_f = len(st.facts)
                body = self.evb(lam.body, st, fr)
                new = st.facts[n_f:]
                del st.facts[n_f:]
                jj = self.bv("qr", z3.IntSort())
                sub = lambda f: z3.substitute(f, (jv, jj))
                rng = z3.And(lo <= jj, jj < hi)
                for f in new:
                    st.facts.append(z3.ForAll([jj], z3.Implies(rng, sub(f))))
                if combine == "all":
                    return SV(z3.ForAll([jj], z3.Implies(rng, sub(body))), "bool")
                ex = z3.Exists([jj], z3.And(rng, sub(body)))
                # logically redundant ground candidates (last / first index of the range) as witness terms for e-matching
                at_ = lambda k_: z3.And(lo <= k_, k_ < hi, z3.substitute(body, (jv, k_)))
                return SV(z3.Or(ex, at_(hi - 1), at_(lo)), "bool")
            if coll.pt in ("pylist", "pydict") or (coll.py and coll.py[0] == "items"):
                vals = []
                for it in self.py_items(coll):
                    st.env[param] = it
                    vals.append(self.evb(lam.body, st, fr))
                return SV((z3.And(vals) if combine == "all" else z3.Or(vals)) if vals else z3.BoolVal(combine == "all"), "bool")
            seq = self.as_seq(coll, st, fr, node.args[0])

            def pred(elem):
                st.env[param] = elem
                return self.evb(lam.body, st, fr)
            return SV(self.quantify(seq, pred, "all" if combine == "all" else "any", st, fr, self.elem_sort(node.args[0], fr)), "bool")
        finally:
            st.env = saved

    def bi_forall(self, node, st, fr):
        return self._quant_spec(node, st, fr, "all")

    def bi_exists(self, node, st, fr):
        return self._quant_spec(node, st, fr, "any")

    def bi_range(self, node, st, fr):
        args = [self.unbox(self.ev(a, st, fr), "int").t for a in node.args]
        lo, hi = (z3.IntVal(0), args[0]) if len(args) == 1 else (args[0], args[1])
        return SV(None, "range", py=(lo, hi))

    def bi_old(self, node, st, fr):
        if fr.old_state is None:
            raise Untranslatable("old() outside a postcondition")
        tmp = fr.old_state.copy()
        tmp.guards, tmp.facts = st.guards, st.facts
        # entry heap, but the clause's own bindings (parameters keep their entry values; lambda-bound names stay visible)
        env = dict(st.env)
        env.update(fr.old_state.env)
        for k_, v_ in st.env.items():
            if k_ not in fr.old_state.env:
                env[k_] = v_
        tmp.env = env
        return self.ev(node.args[0], tmp, fr)

    def bi_ty_is(self, node, st, fr):
        x = self.ev(node.args[0], st, fr)
        names = self.class_names_of(node.args[1], st, fr)
        return SV(z3.Or([self.voc.ty(self.box(x)) == self.voc.cls[n] for n in names]), "bool")

    def bi_same_class(self, node, st, fr):
        a, b = self.ev(node.args[0], st, fr), self.ev(node.args[1], st, fr)
        return SV(self.voc.ty(self.box(a)) == self.voc.ty(self.box(b)), "bool")

    def bi_no_effects(self, node, st, fr):
        return SV((st.eff if st.eff is not None else z3.IntVal(0)) == 0, "bool")

    def bi_effects(self, node, st, fr):
        return SV(st.eff if st.eff is not None else z3.IntVal(0), "int")

    def bi_sval(self, node, st, fr):
        """sval(x): x viewed as a str"""
        return self.unbox(self.ev(node.args[0], st, fr), "str")

    def bi_ival(self, node, st, fr):
        return self.unbox(self.ev(node.args[0], st, fr), "int")

    def bi_unchanged(self, node, st, fr):
        """unchanged('attr'): heap array of attr equals its value in the pre-state; unchanged('attr', obj): at obj"""
        attr = ast.literal_eval(node.args[0])
        cur = self.heap_get(st, attr)
        old = self.heap_get(fr.old_state, attr) if fr.old_state is not None else self.heap0(attr, 0)
        if len(node.args) > 1:
            o = self.box(self.ev(node.args[1], st, fr))
            return SV(z3.Select(cur, o) == z3.Select(old, o), "bool")
        return SV(cur == old, "bool")

    def bi_unchanged_except(self, node, st, fr):
        """unchanged_except('attr', o1, o2, ...): the heap array of attr agrees with the pre-state everywhere but at the listed objects"""
        attr = ast.literal_eval(node.args[0])
        cur = self.heap_get(st, attr)
        old = self.heap_get(fr.old_state, attr) if fr.old_state is not None else self.heap0(attr, 0)
        objs = [self.box(self.ev(a, st, fr)) for a in node.args[1:]]
        x = self.bv("ux")
        return SV(z3.ForAll([x], z3.Implies(z3.And([x != o for o in objs]) if objs else z3.BoolVal(True), z3.Select(cur, x) == z3.Select(old, x)),
                            patterns=[z3.Select(cur, x)]), "bool")

    def mro_term(self, cls_term):
        v = self.voc
        f = v.fn("mro_of_cls", v.Cls, v.Val)
        if not getattr(self, "_mro_done", False):
            self._mro_done = True
            for name, const in v.cls.items():
                key = name.replace("__", ".")
                ci = self.repo.classes.get(key)
                if ci is not None and ci.mro:
                    chain = [c for c in ci.mro if c.replace(".", "__") in v.cls] 
                    if "object" not in chain:
                        chain.append("object")
                elif name in ("int", "float", "str", "bool", "list", "dict", "set", "tuple"):
                    chain = v._builtin_mro(name) + ["object"]
                else:
                    continue
                t = f(const)
                self.global_facts.append(v.slen(t) == len(chain))
                self.global_facts.append(v.ty(t) == v.cls["tuple"])
                for i, c in enumerate(chain):
                    self.global_facts.append(v.sat(t, z3.IntVal(i)) == v.clsobj(v.cls[c.replace(".", "__")]))
        return f(cls_term)

    def bi_mro_of(self, node, st, fr):
        x = self.ev(node.args[0], st, fr)
        v = self.voc
        xv = self.box(x)
        c = z3.If(v.ty(xv) == v.cls["type"], v.cls_of(xv), v.ty(xv))
        return SV(self.mro_term(c), "tuple")

    def bi_seq_len(self, node, st, fr):
        x = self.ev(node.args[0], st, fr)
        return SV(self.ite_map(self.box(x), self.voc.slen), "int")

    def bi_dict_len(self, node, st, fr):
        x = self.ev(node.args[0], st, fr)
        return SV(self.voc.dlen(self.box(x)), "int")

    def bi_truthy(self, node, st, fr):
        return SV(self.truth(self.ev(node.args[0], st, fr)), "bool")

    def bi_is_none(self, node, st, fr):
        return SV(self.box(self.ev(node.args[0], st, fr)) == self.voc.NONE, "bool")

    def bi_dict_get(self, node, st, fr):
        d = self.box(self.ev(node.args[0], st, fr))
        k = self.box(self.ev(node.args[1], st, fr))
        v = self.voc
        default = self.box(self.ev(node.args[2], st, fr)) if len(node.args) > 2 else v.NONE
        return SV(z3.If(v.dhas(d, k), v.dget(d, k), default), "any")

    def bi_at(self, node, st, fr):
        xs = self.ev(node.args[0], st, fr)
        i = self.unbox(self.ev(node.args[1], st, fr), "int").t
        isimp = z3.simplify(i)
        if xs.py and xs.py[0] == "items" and z3.is_int_value(isimp) and 0 <= isimp.as_long() < len(xs.py[1]):
            return xs.py[1][isimp.as_long()]
        x = self.box(xs)
        return SV(self.ite_map(x, lambda t_: self.voc.sat(t_, i)), "any")

    def bi_pyeval_str(self, node, st, fr):
        x = self.unbox(self.ev(node.args[0], st, fr), "str")
        f = self.voc.fn("pyeval_str", z3.StringSort(), z3.StringSort())
        return SV(f(x.t), "str")

    def bi_as_dict(self, node, st, fr):
        return SV(self.box(self.ev(node.args[0], st, fr)), "dict")

    def bi_as_list(self, node, st, fr):
        return SV(self.box(self.ev(node.args[0], st, fr)), "list")

    def bi_as_set(self, node, st, fr):
        return SV(self.box(self.ev(node.args[0], st, fr)), "set")

    def bi_local(self, node, st, fr):
        """local("x"): value of the code's local variable x at the exit under consideration (a ghost exposure).
        At call sites (callers do not see callee locals) it is an unconstrained value."""
        name = ast.literal_eval(node.args[0])
        env = getattr(fr, "exit_env", None)
        if env is not None and name in env:
            x = env[name]
            if x.pt == "any" and fr.contract is not None and name in fr.contract.sorts:
                x = self.with_sort(x.t, fr.contract.sorts[name])
            return x
        if env is not None:
            assigned = {n.id for n in ast.walk(fr.fi.node) if isinstance(n, ast.Name) and isinstance(n.ctx, ast.Store)} if fr.fi is not None else set()
            if name not in assigned:
                raise Untranslatable(f"contract refers to local {name!r} which is not a local of the function any more")
            # a local of the function that is unset on this path: unconstrained
        cache = fr.__dict__.setdefault("_local_cache", {})
        if name not in cache:
            pt = fr.contract.sorts.get(name, "any") if fr.contract is not None else "any"
            cache[name] = self.fresh_sv("ghost_" + name, pt)
        return cache[name]

    def bi_tl_get(self, node, st, fr):
        """tl_get(threadlocal, "attr"): the value a `getattr(tl, attr, None)` would observe in the current thread"""
        obj = self.ev(node.args[0], st, fr)
        return self.tl_get(obj, ast.literal_eval(node.args[1]), st, fr)

    def bi_raw_tq_ok(self, node, st, fr):
        x = self.unbox(self.ev(node.args[0], st, fr), "str")
        return SV(self.voc.fn("raw_tq_ok", z3.StringSort(), z3.BoolSort())(x.t), "bool")

    def bi_is_blank(self, node, st, fr):
        x = self.unbox(self.ev(node.args[0], st, fr), "str")
        return SV(self.voc.fn("is_blank", z3.StringSort(), z3.BoolSort())(x.t), "bool")

    def bi_attr_of(self, node, st, fr):
        obj = self.ev(node.args[0], st, fr)
        return self.read_attr(obj, ast.literal_eval(node.args[1]), st, fr)

    def bi_eq_str(self, node, st, fr):
        a = self.ev(node.args[0], st, fr)
        b = self.ev(node.args[1], st, fr)
        return SV(self.box(a) == self.box(b), "bool")

    def bi_ext(self, node, st, fr):
        """ext("name", args...): result of the assumed external `name` (same function symbol as in the code)"""
        name = ast.literal_eval(node.args[0])
        return self.call_named(name, [self.ev(a, st, fr) for a in node.args[1:]], {}, st, fr, node)

    def bi_box_bool(self, node, st, fr):
        return SV(self.voc.B2V(self.evb(node.args[0], st, fr)), "any")

    def bi_written_text(self, node, st, fr):
        env = getattr(fr, "exit_env", None) or st.env
        if "$written" not in env:
            return SV(z3.StringVal("<nothing written>"), "str")
        return env["$written"]

    def bi_opened_path(self, node, st, fr):
        env = getattr(fr, "exit_env", None) or st.env
        if "$opened" not in env:
            return SV(self.voc.NONE, "none")
        return env["$opened"]

    def bi_tuple2(self, node, st, fr):
        v = self.voc
        a, b = self.box(self.ev(node.args[0], st, fr)), self.box(self.ev(node.args[1], st, fr))
        return SV(v.sapp(v.sapp(v.tnil, a), b), "tuple")

    def bi_cls_name(self, node, st, fr):
        x = self.ev(node.args[0], st, fr)
        return self.class_attr(SV(self.box(x), "class"), "__name__", st, fr, node)

    def bi_clsattr(self, node, st, fr):
        x = self.ev(node.args[0], st, fr)
        return self.class_attr(SV(self.box(x), "class"), ast.literal_eval(node.args[1]), st, fr, node)

    def bi_distinct(self, node, st, fr):
        x = self.ev(node.args[0], st, fr)
        return SV(self.voc.distinct(self.as_seq(x, st, fr, node).t), "bool")

    def bi_as_set_of(self, node, st, fr):
        x = self.ev(node.args[0], st, fr)
        return SV(self.as_set(x, st, fr, node).t, "set")

    def bi_accepts(self, node, st, fr):
        """accepts(pseudo_type, s): the spec relation of C09 (uninterpreted; tied to the parsers by an assumed contract)"""
        t = self.box(self.ev(node.args[0], st, fr))
        x = self.unbox(self.ev(node.args[1], st, fr), "str")
        return SV(self.voc.fn("accepts", self.voc.Val, z3.StringSort(), z3.BoolSort())(t, x.t), "bool")

    def bi_matches(self, node, st, fr):
        r = self.box(self.ev(node.args[0], st, fr))
        x = self.unbox(self.ev(node.args[1], st, fr), "str")
        return SV(self.voc.fn("matches", self.voc.Val, z3.StringSort(), z3.BoolSort())(r, x.t), "bool")

    def bi_is_json(self, node, st, fr):
        """is_json(v): v is a JSON value - None / bool / int / float / str / list of JSON values / dict from str to JSON values.
        A recursive spec predicate: unfolded one level per trigger (json(v) together with an element / item term)."""
        v = self.voc
        J = v.fn("isjson", v.Val, z3.BoolSort())
        if not getattr(self, "_json_done", False):
            self._json_done = True
            x, k = self.bv("jx"), self.bv("jk")
            j = self.bv("jj", z3.IntSort())
            kinds = z3.Or([x == v.NONE] + [v.ty(x) == v.cls[c] for c in ("bool", "int", "float", "str", "list", "dict")])
            self.global_facts += [
                z3.ForAll([x], z3.Implies(J(x), kinds), patterns=[J(x)]),
                z3.ForAll([x, j], z3.Implies(z3.And(J(x), v.ty(x) == v.cls["list"], 0 <= j, j < v.slen(x)), J(v.sat(x, j))),
                          patterns=[z3.MultiPattern(J(x), v.sat(x, j))]),
                z3.ForAll([x, k], z3.Implies(z3.And(J(x), v.ty(x) == v.cls["dict"], v.dhas(x, k)), z3.And(v.ty(k) == v.cls["str"], J(v.dget(x, k)))),
                          patterns=[z3.MultiPattern(J(x), v.dhas(x, k)), z3.MultiPattern(J(x), v.dget(x, k))]),
            ]
        x = self.box(self.ev(node.args[0], st, fr))
        return SV(J(x), "bool")

    def elem_type_fact_dictkeys(self, d):
        v = self.voc
        k = self.bv("jk")
        return z3.ForAll([k], z3.Implies(v.dhas(d, k), v.ty(k) == v.cls["str"]), patterns=[v.dhas(d, k)])

    def bi_sub_accepts(self, node, st, fr):
        """sub_accepts(a, b): pseudo-type b accepts every string pseudo-type a accepts (C09's condition for a replace pair).
        Uninterpreted; the only assumed instance is (IntString, FloatString) - audited by the bounded grammar stand-in."""
        v = self.voc
        f = v.fn("sub_accepts", v.Val, v.Val, z3.BoolSort())
        if not getattr(self, "_sub_done", False):
            self._sub_done = True
            self.global_facts.append(f(v.clsobj(v.cls["IntString"]), v.clsobj(v.cls["FloatString"])))
            self.used_assumptions.add("int(s) succeeds => float(s) succeeds for every str s (sub_accepts(IntString, FloatString)); audited bounded")
        return SV(f(self.box(self.ev(node.args[0], st, fr)), self.box(self.ev(node.args[1], st, fr))), "bool")

    def bi_attr_set(self, node, st, fr):
        obj = self.ev(node.args[0], st, fr)
        r = self.read_attr(obj, ast.literal_eval(node.args[1]), st, fr)
        return SV(self.box(r), "set")

    def bi_tail(self, node, st, fr):
        """tail(xs) == xs[1:]"""
        xs = self.ev(node.args[0], st, fr)
        return self.slice_(SV(self.box(xs), "list"), ast.Slice(lower=ast.Constant(1), upper=None, step=None), st, fr, node)

    def bi_type_arg(self, node, st, fr):
        """type_arg(t, i) == t.__args__[i] of a typing object (opaque)"""
        t = self.ev(node.args[0], st, fr)
        args = self.class_attr(SV(self.box(t), "class"), "__args__", st, fr, node)
        i = self.unbox(self.ev(node.args[1], st, fr), "int").t
        v = self.voc
        ab = self.box(args)
        f = v.fn("getitem", v.Val, v.Val, v.Val)
        is_seq = z3.Or(v.isinstance_(ab, "list"), v.isinstance_(ab, "tuple"))
        return SV(z3.If(is_seq, v.sat(ab, i), z3.If(v.isinstance_(ab, "dict"), v.dget(ab, v.I2V(i)), f(ab, v.I2V(i)))), "any")

    def bi_type_args(self, node, st, fr):
        t = self.ev(node.args[0], st, fr)
        return SV(self.box(self.class_attr(SV(self.box(t), "class"), "__args__", st, fr, node)), "any")

    def bi_word_only(self, node, st, fr):
        """word_only(s): every character of s is a word character (\\w).  Uninterpreted, with the closure facts that are true of it."""
        v = self.voc
        W = v.fn("word_only", z3.StringSort(), z3.BoolSort())
        if not getattr(self, "_word_done", False):
            self._word_done = True
            a, b = z3.String("wa"), z3.String("wb")
            i, n = z3.Int("wi"), z3.Int("wn")
            self.global_facts += [
                z3.ForAll([a, b], W(z3.Concat(a, b)) == z3.And(W(a), W(b)), patterns=[W(z3.Concat(a, b))]),
                z3.ForAll([a, i, n], z3.Implies(W(a), W(z3.SubString(a, i, n))), patterns=[W(z3.SubString(a, i, n))]),
                W(z3.StringVal("")), W(z3.StringVal("_")),
            ] + [W(z3.StringVal(w)) for w in ("one", "two", "three", "four", "five", "six", "seven", "eight", "nine")]
        x = self.unbox(self.ev(node.args[0], st, fr), "str")

        def wo(t):
            # structural evaluation: distribute over concatenation and conditionals, decide literals concretely
            import re as _re
            if z3.is_string_value(t):
                return z3.BoolVal(_re.fullmatch(r"\w*", t.as_string()) is not None)
            if z3.is_app(t) and t.decl().kind() == z3.Z3_OP_SEQ_CONCAT:
                return z3.And([wo(c) for c in t.children()])
            if z3.is_app(t) and t.decl().kind() == z3.Z3_OP_ITE:
                c, a, b = t.children()
                return z3.If(c, wo(a), wo(b))
            return W(t)
        return SV(wo(x.t), "bool")

    def bi_digit_start(self, node, st, fr):
        """digit_start(s): s is non-empty and its first character is one of 0..9"""
        x = self.unbox(self.ev(node.args[0], st, fr), "str").t
        c = z3.SubString(x, 0, 1)
        return SV(z3.And(z3.Length(x) > 0, z3.StringVal("0") <= c, c <= z3.StringVal("9")), "bool")

    def bi_box_str(self, node, st, fr):
        return SV(self.voc.S2V(self.unbox(self.ev(node.args[0], st, fr), "str").t), "any")

    def bi_dict_values(self, node, st, fr):
        """dict_values(d): the list of values of d in key (insertion) order - the same term an iteration over d.values() uses"""
        d = self.ev(node.args[0], st, fr)
        dd = SV(self.box(d), "dict")
        return self.as_seq(SV(None, "dvalues", py=("dvalues", dd, None)), st, fr, node)

    def bi_attr_bool(self, node, st, fr):
        obj = self.ev(node.args[0], st, fr)
        r = self.read_attr(obj, ast.literal_eval(node.args[1]), st, fr)
        return self.unbox(SV(self.box(r), "any"), "bool")

    def bi_list_subset(self, node, st, fr):
        a = self.as_seq(self.ev(node.args[0], st, fr), st, fr, node)
        b = self.as_seq(self.ev(node.args[1], st, fr), st, fr, node)
        return SV(self.ite_map(a.t, lambda x_: self.ite_map(b.t, lambda y_: self.voc.lsubset(x_, y_))), "bool")

    def bi_list_subset_except(self, node, st, fr):
        a = self.as_seq(self.ev(node.args[0], st, fr), st, fr, node)
        b = self.as_seq(self.ev(node.args[1], st, fr), st, fr, node)
        x = self.box(self.ev(node.args[2], st, fr))
        return SV(self.ite_map(a.t, lambda x_: self.ite_map(b.t, lambda y_: self.voc.lsubset_ex(x_, y_, x))), "bool")

    def elem_pred_call(self, name, node, st, fr):
        v = self.voc
        base = name[4:] if name.startswith("all_") else name
        P = v.fn("ep_" + base, v.Val, z3.BoolSort())
        ALL = v.fn("all_" + base, v.Val, z3.BoolSort())
        W = v.fn("wit_" + base, v.Val, z3.IntSort())
        done = self.__dict__.setdefault("_elempred_done", set())
        if base not in done:
            done.add(base)
            macro = self.side.elem_preds[base]
            x = self.bv("epx")
            tmp = St()
            tmp.env[macro.args.args[0].arg] = SV(x, "any")
            sfr = Frame(fr.fi, fr.contract, fr.cls, kind="spec")
            self.init_frame(sfr)
            body = None
            for stmt_ in macro.body:
                if isinstance(stmt_, ast.Return):
                    body = self.evb(stmt_.value, tmp, sfr)
            if tmp.facts or tmp.heap:
                raise Untranslatable(f"element predicate {base} must be heap-independent and fact-free")
            s_, e_ = self.bv("eps"), self.bv("epe")
            s2 = self.bv("eps2")
            j = self.bv("epj", z3.IntSort())
            self.global_facts += [
                z3.ForAll([x], P(x) == body, patterns=[P(x)]),
                ALL(v.snil), ALL(v.tnil),
                z3.ForAll([s_, e_], ALL(v.sapp(s_, e_)) == z3.And(ALL(s_), P(e_)), patterns=[ALL(v.sapp(s_, e_))]),
                z3.ForAll([s_, s2], ALL(v.sconcat(s_, s2)) == z3.And(ALL(s_), ALL(s2)), patterns=[ALL(v.sconcat(s_, s2))]),
                z3.ForAll([s_, j], z3.Implies(z3.And(ALL(s_), 0 <= j, j < v.slen(s_)), P(v.sat(s_, j))), patterns=[z3.MultiPattern(ALL(s_), v.sat(s_, j))]),
                z3.ForAll([s_], z3.Implies(z3.Not(ALL(s_)), z3.And(0 <= W(s_), W(s_) < v.slen(s_), z3.Not(P(v.sat(s_, W(s_)))))), patterns=[ALL(s_)]),
            ]
        arg = self.ev(node.args[0], st, fr)
        if name.startswith("all_"):
            seq = self.as_seq(arg, st, fr, node)
            return SV(self.ite_map(seq.t, lambda t_: ALL(t_)), "bool")
        return SV(P(self.box(arg)), "bool")
