#!/usr/bin/env python3
"""dev helper: like seedrun.py, but against a scratch copy of /repo HEAD (so that it can run next to seedrun.py, which patches /repo
itself).  Runs each seed's own property check with VERIF_REPO=<scratch>, writes seedrun-style JSON.
usage: seedscratch.py <out.json> <scratchdir outside /repo and /verif> <seed>..."""
import json
import os
import shutil
import subprocess
import sys

HERE = os.path.dirname(os.path.abspath(__file__))
out_path, d = sys.argv[1], sys.argv[2]
assert not d.startswith(("/repo", "/verif"))
out = {}
for s in sys.argv[3:]:
    shutil.rmtree(d, ignore_errors=True)
    os.makedirs(d)
    subprocess.run(f"git -C /repo archive HEAD | tar -x -C {d}", shell=True, check=True)
    r = subprocess.run(f"cd {d} && patch -p1 -s < {HERE}/seeded/{s}/patch.diff", shell=True)
    if r.returncode != 0:
        print(s, "PATCH FAIL", flush=True)
        continue
    p = s[:3]
    c = subprocess.run([os.path.join(HERE, "check"), p], capture_output=True, text=True, env=dict(os.environ, VERIF_REPO=d), cwd=HERE)
    viol = [l for l in c.stdout.splitlines() if l.startswith("VIOLATION")]
    out[s] = {p: [c.returncode, viol]}
    what = []
    for v in viol[:4]:
        path = v.split("replay=")[1].split()[0]
        try:
            j = json.load(open(path))
            what.append((j.get("obligation") or j.get("bounded") or "?") + (" [no-input]" if v.endswith("no-failing-input-found") else ""))
        except Exception:
            what.append("?")
    print(f"{s:10s} {p} exit={c.returncode} violations={len(viol)} {what}", flush=True)
    json.dump(out, open(out_path, "w"), indent=1)
shutil.rmtree(d, ignore_errors=True)
