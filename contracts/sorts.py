"""Declared sorts of attributes (audited at run time by rtc: the run-time type of every attribute read equals its declared sort)."""
from pyvc.dsl import sorts

sorts(
    pointers="set", child_pointers="set",
    _types="list", dict_keys_fields="set", dict_keys_regex="list",
    argparser="obj:ArgumentParser",
    model="obj:ModelMeta", blacklist_words="set", convert_unicode="bool", post_init_converters="bool", no_meta="bool",
    percent_fields="float", number_fields="int",
    _overflow="bool", _literals="set", MAX_LITERALS="int", MAX_STRING_LENGTH="int",
    _models_cmp="tuple", **{"_models_cmp[]": "obj:ModelCmp", "ext:sys.argv": "list", "merge": "list", "merge[]": "str", "ext:sys.argv[]": "str"}, types="list", replaces="set",
)
