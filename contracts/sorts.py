"""Declared sorts of attributes (audited at run time by rtc: the run-time type of every attribute read equals its declared sort)."""
from pyvc.dsl import sorts, write_once

sorts(
    pointers="set", child_pointers="set",
    _types="list", dict_keys_fields="set", dict_keys_regex="list",
    argparser="obj:ArgumentParser",
    model="obj:ModelMeta", blacklist_words="set", convert_unicode="bool", post_init_converters="bool", no_meta="bool",
    percent_fields="float", number_fields="int",
    _overflow="bool", _literals="set", MAX_LITERALS="int", MAX_STRING_LENGTH="int",
    _models_cmp="tuple", **{"_models_cmp[]": "obj:ModelCmp", "ext:sys.argv": "list", "merge": "list", "merge[]": "str", "ext:sys.argv[]": "str"}, types="list", replaces="set",
)

# A StringLiteral never changes after its constructor returned: a call that is not that constructor leaves these attributes of every
# object it did not create as they were.  Obligation write-once@<attr> re-checks the premise on the package source on every run.
write_once("_overflow", "_literals")

# setattr(obj, <computed name>, value) cannot be resolved syntactically.  The sites below are exempted with a recorded reason (trusted,
# listed in the evidence); a computed setattr anywhere else leaves write-once@<attr> undischarged.
WRITE_ONCE_DYNAMIC_SITES_JUSTIFIED = [
    {"module": "json_to_models/models/string_converters.py",
     "why": "decorators applied to *generated* model classes and their instances at the run time of the generated code; they receive user "
            "model classes / instances, never IR nodes (StringLiteral is slotted and is not reachable from generated modules)"},
]
