"""Contracts for json_to_models/generator.py (C01, C02, C07, C08, C09, C13)."""
from pyvc.dsl import *

MG = "json_to_models/generator.py::MetadataGenerator"


@contract(MG + ".__init__", props=["C13", "C14", "C07"])
class GeneratorInit:
    """C13/C14: a generator works with exactly the options it was given: the registry passed (or the module default), one compiled
    pattern per given regex, and a set holding exactly the given field names - its own set, not one shared with other generators."""
    sorts = {"dict_keys_regex": "any", "dict_keys_fields": "any", "str_types_registry": "any"}
    modifies = ["str_types_registry", "dict_keys_regex", "dict_keys_fields"]
    modifies_self = ["str_types_registry", "dict_keys_regex", "dict_keys_fields"]

    def raises(self, str_types_registry, dict_keys_regex, dict_keys_fields):
        return {"*": True}

    def ensures(self, str_types_registry, dict_keys_regex, dict_keys_fields):
        # the two options are sequences of names / patterns or None (what the CLI and the documented API pass)
        lists = (is_none(dict_keys_regex) or ty_is(dict_keys_regex, list)) and (is_none(dict_keys_fields) or ty_is(dict_keys_fields, list))
        return {
            "registry_as_given": attr_of(self, "str_types_registry") is (registry if is_none(str_types_registry) else str_types_registry),
            "exactly_the_given_field_names": implies(lists, forall(attr_set(self, "dict_keys_fields"), lambda x: not is_none(dict_keys_fields) and x in as_list(dict_keys_fields))
                                                     and implies(not is_none(dict_keys_fields), forall(as_list(dict_keys_fields), lambda x: x in attr_set(self, "dict_keys_fields")))),
            "one_pattern_per_regex": implies(lists, seq_len(attr_of(self, "dict_keys_regex")) == (0 if is_none(dict_keys_regex) else seq_len(as_list(dict_keys_regex)))),
        }


IRMOD = ["_type", "_types", "_hash", "_sorted"]


@contract(MG + ".generate", props=["C01", "C02", "C13"])
class Generate:
    """C01 at the top of inference: the model inferred from a list of objects has exactly the keys that occur in them, and a key that
    some object lacks is Optional (so 'every field without a default is present' in every sample); C13: the samples themselves
    become a model.  The value-level half (every value lies in the annotated type) is bounded only."""
    sorts = {"data_variants": "tuple", "data_variants[]": "dict", "result": "dict", "fields_sets": "list", "fields": "dict"}
    modifies = ["_type", "_types", "_hash", "_sorted", "_overflow", "_literals"]

    def requires(self, data_variants):
        return {"samples_are_json_objects": forall(range(seq_len(data_variants)), lambda i: ty_is(at(data_variants, i), dict)
                                                   and forall(as_dict(at(data_variants, i)), lambda k: is_json(as_dict(at(data_variants, i))[k]))),
                "registry_wf": registry_wf(self.str_types_registry)}

    def raises(self, data_variants):
        return {"TypeError": True, "StopIteration": True}

    def ensures(self, data_variants, result):
        n = seq_len(data_variants)
        return {
            "is_model@C13": ty_is(result, dict),
            "every_key_becomes_a_field@C01": forall(range(n), lambda i: forall(as_dict(at(data_variants, i)), lambda k: k in as_dict(result))),
            "no_field_without_a_key@C02": forall(as_dict(result), lambda k: exists(range(n), lambda i: k in as_dict(at(data_variants, i)))),
            "absent_somewhere_means_optional@C01": forall(as_dict(result), lambda k: implies(
                exists(range(n), lambda i: not (k in as_dict(at(data_variants, i)))), isinstance(as_dict(result)[k], DOptional))),
        }


@contract(MG + "._convert", props=["C13", "C17", "C01", "C11", "C07"])
class Convert:
    """C13: an object becomes a model with exactly its keys; the dict-keys-fields option applies to the direct value of a
    named field only; C17: a non-string key is an error (TypeError)."""
    sorts = {"data": "dict", "result": "dict", "fields": "dict", "dict_keys_fields": "set", "convert_dict": "bool"}

    def requires(self, data):
        return {"json_values": forall(data, lambda k: is_json(data[k])),
                "registry_wf": registry_wf(self.str_types_registry)}

    def raises(self, data):
        return {"TypeError": True}

    def ensures(self, data, result):
        return {
            "is_model": ty_is(result, dict),
            "same_keys": forall(data, lambda k: k in result) and forall(result, lambda k: k in data),
            "all_keys_are_strings": forall(data, lambda k: ty_is(k, str)),
            "field_types": forall(data, lambda k: result[k] is old(self._detect_type(data[k], not (k in self.dict_keys_fields)))),
        }


@loop(MG + "._convert", 1)
def convert_loop(self, data, fields, _it, _seq):
    return {
        "model": ty_is(fields, dict),
        "seen_in": forall(range(_it), lambda j: _seq[j] in fields and ty_is(_seq[j], str)
                          and fields[_seq[j]] is old(self._detect_type(data[_seq[j]], not (_seq[j] in self.dict_keys_fields)))),
        "only_seen": forall(fields, lambda k: exists(range(_it), lambda j: _seq[j] is k)),
    }


@contract(MG + "._detect_type", props=["C13", "C09", "C07"])
class DetectType:
    """C13: an object becomes Dict[str, T] exactly when it is empty, or conversion is disabled for this field, or all of its keys
    match one of the dict-key regexes; every other object becomes a model.  C09: a string is classified as the FIRST registered
    pseudo-type whose parser accepts it, else it is a one-element literal."""
    sorts = {"convert_dict": "bool", "dict_keys_regex": "list", "dict_keys_regex[]": "obj:Pattern", "types": "list", "types[]": "class",
             "str_types_registry": "obj:StringSerializableRegistry", "str_types_registry[]": "class", "types": "list"}

    def requires(self, value, convert_dict):
        return {"json_value": is_json(value),
                "registry_wf": registry_wf(self.str_types_registry)}

    def raises(self, value, convert_dict):
        return {"TypeError": True}

    def ensures(self, value, convert_dict, result):
        regs = self.dict_keys_regex
        all_match = exists(regs, lambda r: forall(as_dict(value), lambda k: matches(r, sval(k))))
        as_mapping = isinstance(value, dict) and (dict_len(value) == 0 or not convert_dict or all_match)
        reg_types = as_list(attr_of(self.str_types_registry, "types"))
        return {
            "dict_iff_option@C13": ty_is(result, DDict) == as_mapping,
            "model_otherwise@C13": ty_is(result, dict) == (isinstance(value, dict) and not as_mapping),
            "first_accepting_type@C09": implies(ty_is(value, str),
                                                exists(range(seq_len(reg_types)), lambda j: result is at(reg_types, j) and accepts(at(reg_types, j), sval(value))
                                                       and forall(range(j), lambda k: not accepts(at(reg_types, k), sval(value))))
                                                or (forall(range(seq_len(reg_types)), lambda k: not accepts(at(reg_types, k), sval(value)))
                                                    and ty_is(result, StringLiteral))),
            "scalars": implies(ty_is(value, int), result is int) and implies(ty_is(value, float), result is float) and implies(ty_is(value, bool), result is bool),
            "null": implies(is_none(value), result is Null),
            # C02: null is reported only for null - an empty string (or any other falsy scalar) is a value, not an absence
            "null_only_for_null@C02,C01": implies(result is Null, is_none(value)),
            "list": implies(ty_is(value, list), ty_is(result, DList)),
            "list_items_are_not_direct_values@C13": implies(ty_is(value, list) and seq_len(value) > 0,
                                                            seq_len(local("types")) == seq_len(value) and
                                                            forall(range(seq_len(value)), lambda j: at(local("types"), j) is old(self._detect_type(at(value, j), True)))),
            "single_item_list@C13": implies(ty_is(value, list) and seq_len(value) == 1, attr_of(result, "_type") is old(self._detect_type(at(value, 0), True))),
        }


@loop(MG + "._detect_type", 1)
def detect_regex_loop(self, value, convert_dict, pre_convert_dict, _it, _seq):
    return {"unchanged_until_match": convert_dict == pre_convert_dict,
            "no_match_before": forall(range(_it), lambda j: not forall(as_dict(value), lambda k: matches(_seq[j], sval(k))))}


@loop(MG + "._detect_type", 2)
def detect_registry_loop(self, value, pre_value, _it, _seq):
    return {"value_kept": value is pre_value,
            "none_accepted_before": forall(range(_it), lambda j: not accepts(_seq[j], sval(pre_value)))}


@contract(MG + ".optimize_type", props=["C08", "C01", "C02"], abstract=True)
class OptimizeType:
    """C08 (shallow normal form of the returned node) + kind preservation used by _optimize_union:
    Optional is never nested directly in Optional; an overflowed / empty literal becomes str; a union is only returned for a union;
    Optional only for Optional / union; null and Any are preserved exactly; models keep their keys.  Never raises."""
    sorts = {"process_model_ptr": "bool", "fields": "dict", "_overflow": "bool", "_literals": "set"}
    modifies = ["_type", "_types", "_hash", "_sorted", "_overflow", "_literals"]

    def requires(self, meta, process_model_ptr):
        return {"registry_wf": registry_wf(self.str_types_registry),
                # every call in the package leaves the flag at its default; pointers are leaves of the simplification
                "pointers_are_leaves": not process_model_ptr}

    def raises(self, meta, process_model_ptr):
        return {"StopIteration": True}

    def ensures(self, meta, process_model_ptr, result):
        plain = not isinstance(meta, DUnion) and not isinstance(meta, ComplexType)
        return {
            "model_keeps_keys@C01": implies(ty_is(meta, dict), ty_is(result, dict) and forall(as_dict(meta), lambda k: k in as_dict(result)) and forall(as_dict(result), lambda k: k in as_dict(meta))),
            "null_preserved@C01,C02": implies(plain, (result is Null) == (meta is Null)),
            "any_preserved@C02": implies(plain, (result is Unknown) == (meta is Unknown)),
            "optional_only_from_optional_or_union@C02": implies(isinstance(result, DOptional), isinstance(meta, DOptional) or isinstance(meta, DUnion)),
            "optional_stays_optional@C01": implies(isinstance(meta, DOptional), isinstance(result, DOptional)),
            "optional_fields_stay_optional@C01": implies(ty_is(meta, dict), forall(as_dict(meta), lambda k: implies(
                isinstance(as_dict(meta)[k], DOptional), isinstance(as_dict(result)[k], DOptional)))),
            "union_only_from_union@C08": implies(isinstance(result, DUnion), isinstance(meta, DUnion)),
            "optional_not_nested@C08": implies(isinstance(result, DOptional), not isinstance(attr_of(result, "_type"), DOptional)),
            "no_overflowed_or_empty_literal@C08,C10": implies(isinstance(result, StringLiteral) and not isinstance(meta, DUnion), not attr_bool(result, "_overflow") and card(attr_set(result, "_literals")) > 0),
            "classes_returned_as_is": implies(is_class(meta), result is meta),
            "class_result_only_from_class_or_literal": implies(is_class(result) and not isinstance(meta, DUnion), result is meta or (result is str and isinstance(meta, StringLiteral))),
            "containers_keep_their_kind": implies(isinstance(meta, DList), result is meta) and implies(isinstance(meta, DDict), result is meta),
        }


@loop(MG + ".optimize_type", 1)
def optimize_type_model_loop(meta, fields, _it, _seq):
    return {"keys_so_far": ty_is(fields, dict) and forall(range(_it), lambda j: _seq[j] in fields) and forall(fields, lambda k: exists(range(_it), lambda j: _seq[j] is k)),
            "optional_so_far": forall(range(_it), lambda j: implies(isinstance(as_dict(meta)[_seq[j]], DOptional), isinstance(as_dict(fields)[_seq[j]], DOptional)))}


@spec
def has_null(t):
    """some member of the union is null or an Optional"""
    return exists(range(seq_len(attr_of(t, "_types"))), lambda i: at(attr_of(t, "_types"), i) is Null or isinstance(at(attr_of(t, "_types"), i), DOptional))


@spec
def in_model(field_sets, i, k):
    """key k is a field of the i-th field set"""
    return k in as_dict(at(field_sets, i))


@contract(MG + ".merge_field_sets", props=["C01", "C02", "C07"])
class MergeFieldSets:
    """C01: the merged model has exactly the keys of its members, and a key that some member lacks is Optional
    (so a field without a default is present in every merged object)."""
    sorts = {"field_sets": "list", "field_sets[]": "dict", "result": "dict", "fields": "dict", "first": "bool", "fields_diff": "set", "model": "dict"}
    modifies = ["_type", "_types", "_hash", "_sorted", "_overflow", "_literals"]

    def requires(self, field_sets):
        return {"members_are_models": ty_is(field_sets, list) and forall(range(seq_len(field_sets)), lambda i: isinstance(at(field_sets, i), dict))}

    def ensures(self, field_sets, result):
        n = seq_len(field_sets)
        return {
            "is_model": ty_is(result, dict),
            "no_key_lost@C01": forall(range(n), lambda i: forall(as_dict(at(field_sets, i)), lambda k: k in as_dict(result))),
            "no_key_invented@C02": forall(as_dict(result), lambda k: exists(range(n), lambda i: in_model(field_sets, i, k))),
            "missing_somewhere_makes_optional@C01": forall(as_dict(result), lambda k: implies(
                exists(range(n), lambda i: not in_model(field_sets, i, k)), isinstance(as_dict(result)[k], DOptional))),
        }


@loop(MG + ".merge_field_sets", 1)
def merge_outer(field_sets, fields, first, _it, _seq):
    return {
        "is_model": ty_is(fields, dict),
        "first_flag": first == (_it == 0),
        "no_key_lost": forall(range(_it), lambda i: forall(as_dict(_seq[i]), lambda k: k in as_dict(fields))),
        "no_key_invented": forall(as_dict(fields), lambda k: exists(range(_it), lambda i: k in as_dict(_seq[i]))),
        "missing_somewhere_makes_optional": forall(as_dict(fields), lambda k: implies(
            exists(range(_it), lambda i: not (k in as_dict(_seq[i]))), isinstance(as_dict(fields)[k], DOptional))),
    }


@loop(MG + ".merge_field_sets", 2)
def merge_inner(field_sets, fields, first, fields_diff, model, pre_fields, _it, _seq, _outer_it, _outer_seq):
    return {
        "is_model": ty_is(fields, dict),
        "old_keys_kept": forall(as_dict(pre_fields), lambda k: k in as_dict(fields)),
        "seen_keys_added": forall(range(_it), lambda j: _seq[j] in as_dict(fields)),
        "nothing_else_added": forall(as_dict(fields), lambda k: k in as_dict(pre_fields) or exists(range(_it), lambda j: _seq[j] is k)),
        "diff_is_old_keys_not_seen": forall(fields_diff, lambda k: k in as_dict(pre_fields) and not exists(range(_it), lambda j: _seq[j] is k))
                                     and forall(as_dict(pre_fields), lambda k: k in fields_diff or exists(range(_it), lambda j: _seq[j] is k)),
        "missing_earlier_makes_optional": forall(as_dict(fields), lambda k: implies(
            exists(range(_outer_it), lambda i: not (k in as_dict(_outer_seq[i]))), isinstance(as_dict(fields)[k], DOptional))),
    }


@loop(MG + ".merge_field_sets", 3)
def merge_missing(field_sets, fields, fields_diff, model, pre_fields, _it, _seq, _outer_it, _outer_seq):
    return {
        "is_model": ty_is(fields, dict),
        "same_keys": forall(as_dict(pre_fields), lambda k: k in as_dict(fields)) and forall(as_dict(fields), lambda k: k in as_dict(pre_fields)),
        "optional_kept": forall(as_dict(pre_fields), lambda k: implies(isinstance(as_dict(pre_fields)[k], DOptional), isinstance(as_dict(fields)[k], DOptional))),
        "visited_are_optional": forall(range(_it), lambda j: isinstance(as_dict(fields)[_seq[j]], DOptional)),
    }


@contract(MG + "._optimize_union", props=["C08", "C01", "C02", "C07", "C09", "C13"])
class OptimizeUnion:
    """C01: a null or Optional member makes the result Optional (or null itself) - the null is never lost;
    C02/C07: without such a member the result is neither Optional nor null; C08: the result is never a union of fewer than two
    members, int is dropped next to float; the simplification never fails on a non-empty flat union."""
    sorts = {"t": "obj:DUnion", "str_types": "any", "types_to_merge": "list", "list_types": "list", "dict_types": "list", "other_types": "list",
             "types": "list", "optional": "bool", "meta_type": "any", "str_types_registry": "obj:StringSerializableRegistry"}
    modifies = ["_type", "_types", "_hash", "_sorted", "_overflow", "_literals"]

    def requires(self, t):
        ms = attr_of(t, "_types")
        return {"is_union": ty_is(ms, list) and seq_len(ms) >= 1,
                "flat": forall(range(seq_len(ms)), lambda i: not isinstance(at(ms, i), ComplexType)),
                "optional_members_not_nested": forall(range(seq_len(ms)), lambda i: implies(isinstance(at(ms, i), DOptional),
                                                                                            not isinstance(attr_of(at(ms, i), "_type"), DOptional) and not isinstance(attr_of(at(ms, i), "_type"), ComplexType))),
                "registry_wf": registry_wf(self.str_types_registry)}

    def raises(self, t):
        return {"StopIteration": True}

    def ensures(self, t, result):
        return {
            "null_is_kept@C01": implies(old(has_null(t)), isinstance(result, DOptional) or result is Null),
            "optional_only_if_null_member@C02,C07": implies(not old(has_null(t)), not isinstance(result, DOptional) and not (result is Null)),
            "no_union_below_two@C08": implies(isinstance(result, DUnion), seq_len(attr_of(result, "_types")) >= 2),
            "optional_not_nested@C08": implies(isinstance(result, DOptional), not isinstance(attr_of(result, "_type"), DOptional)),
        }


@spec
def unwrapped(x):
    return attr_of(x, "_type") if isinstance(x, DOptional) else x


@spec
def landed(y, str_types, types_to_merge, list_types, dict_types, other_types):
    return y in other_types or y in types_to_merge or y in as_list(str_types) or y in list_types or y in dict_types


@loop(MG + "._optimize_union", 1)
def optimize_union_split(t, str_types, types_to_merge, list_types, dict_types, other_types, _it, _seq):
    return {
        "lists": ty_is(other_types, list) and ty_is(as_list(str_types), list) and ty_is(types_to_merge, list) and ty_is(list_types, list) and ty_is(dict_types, list),
        "every_member_lands_somewhere": seq_len(other_types) + seq_len(types_to_merge) + seq_len(as_list(str_types)) + seq_len(list_types) + seq_len(dict_types) >= _it,
        "null_recorded_iff_seen": (Null in other_types) == exists(range(_it), lambda i: _seq[i] is Null or isinstance(_seq[i], DOptional)),
        "others_plain": all_plain(other_types),
        "strings_are_classes": forall(range(seq_len(as_list(str_types))), lambda k: is_class(at(as_list(str_types), k))),
        "mergeables_are_models": forall(range(seq_len(types_to_merge)), lambda k: isinstance(at(types_to_merge, k), dict)),
        # no member is lost by the categorisation: the member itself, or the type inside an Optional member, is in one of the buckets
        "every_member_is_in_a_bucket": forall(range(_it), lambda i: landed(unwrapped(_seq[i]), str_types, types_to_merge, list_types, dict_types, other_types)),
    }


@loop(MG + "._optimize_union", 3)
def optimize_union_strip_null(types, pre_types):
    return {
        "is_list": ty_is(types, list),
        "non_null_kept": list_subset_except(pre_types, types, Null),
        "nothing_new": list_subset(types, pre_types),
        "members_stay_simplified": forall(range(seq_len(types)), lambda k: not isinstance(at(types, k), DOptional) and not isinstance(at(types, k), DUnion)),
        "literal_members_counted": forall(range(seq_len(types)), lambda k: implies(isinstance(at(types, k), StringLiteral),
                                                                                   not attr_bool(at(types, k), "_overflow") and card(attr_set(at(types, k), "_literals")) > 0)),
    }


@lemma(MG + "._optimize_union", after="types = [self.optimize_type(t) for t in other_types]", forget=["types"])
def optimize_union_after_map(t, other_types, types):
    """cut point after the recursive simplification of the bucket contents"""
    return {
        "same_length": seq_len(types) == seq_len(other_types) and seq_len(types) >= 1 and ty_is(types, list),
        "null_kept_exactly": (Null in types) == old(has_null(t)),
        "no_optional_no_union_members": forall(range(seq_len(types)), lambda k: not isinstance(at(types, k), DOptional) and not isinstance(at(types, k), DUnion)),
        "literal_members_counted": forall(range(seq_len(types)), lambda k: implies(isinstance(at(types, k), StringLiteral),
                                                                                   not attr_bool(at(types, k), "_overflow") and card(attr_set(at(types, k), "_literals")) > 0)),
    }


@lemma(MG + "._optimize_union", after="if Null in types:", forget=["types"])
def optimize_union_after_strip(t, types, optional):
    """cut point before the union is rebuilt: no null, no Optional, no union among the members; the flag records the null"""
    return {
        "is_list": ty_is(types, list),
        "flag_records_null": optional == old(has_null(t)),
        "members_ok": forall(range(seq_len(types)), lambda k: not isinstance(at(types, k), DOptional) and not isinstance(at(types, k), DUnion) and not (at(types, k) is Null)),
        "literal_members_counted": forall(range(seq_len(types)), lambda k: implies(isinstance(at(types, k), StringLiteral),
                                                                                   not attr_bool(at(types, k), "_overflow") and card(attr_set(at(types, k), "_literals")) > 0)),
    }


@elempred
def plain(x):
    """a bucket element: not a union, not an Optional, not a tuple"""
    return not isinstance(x, DUnion) and not isinstance(x, DOptional) and not isinstance(x, ComplexType)


@spec
def buckets_ok(t, other_types):
    """what is known about `other_types` between the categorisation loop and the recursive simplification"""
    return ty_is(other_types, list) and ((Null in other_types) == old(has_null(t))) and all_plain(other_types)


@lemma(MG + "._optimize_union", after="if int in other_types and float in other_types:", forget=["other_types"], only=True)
def optimize_union_after_int_float(t, other_types, str_types, types_to_merge, list_types, dict_types):
    """full cut after the categorisation: this is all the rest of the function knows about the buckets"""
    return {"buckets_ok": buckets_ok(t, other_types),
            "something_left": seq_len(other_types) >= 1 or seq_len(types_to_merge) >= 1 or seq_len(as_list(str_types)) >= 1 or seq_len(list_types) >= 1 or seq_len(dict_types) >= 1,
            "lists": ty_is(as_list(str_types), list) and ty_is(types_to_merge, list) and ty_is(list_types, list) and ty_is(dict_types, list),
            "strings_are_classes": forall(range(seq_len(as_list(str_types))), lambda k: is_class(at(as_list(str_types), k))),
            "mergeables_are_models": forall(range(seq_len(types_to_merge)), lambda k: isinstance(at(types_to_merge, k), dict))}


@lemma(MG + "._optimize_union", after="if types_to_merge:", forget=["other_types"])
def optimize_union_after_merge(t, other_types, str_types, list_types, dict_types):
    return {"buckets_ok": buckets_ok(t, other_types),
            "something_left": seq_len(other_types) >= 1 or seq_len(as_list(str_types)) >= 1 or seq_len(list_types) >= 1 or seq_len(dict_types) >= 1}


@lemma(MG + "._optimize_union", after="for cls, iterable_types in", forget=["other_types"])
def optimize_union_after_containers(t, other_types, str_types):
    return {"buckets_ok": buckets_ok(t, other_types), "something_left": seq_len(other_types) >= 1 or seq_len(as_list(str_types)) >= 1}


@lemma(MG + "._optimize_union", after="if str in str_types:", forget=["other_types"])
def optimize_union_after_strings(t, other_types, str_types, types_to_merge, list_types, dict_types):
    return {"buckets_ok": buckets_ok(t, other_types), "something_to_simplify": seq_len(other_types) >= 1}


@lemma(MG + "._optimize_union", after="str_types = self.str_types_registry.resolve(*str_types)")
def optimize_union_after_resolve(t, str_types):
    return {"resolved_are_classes": forall(as_set(str_types), lambda x: is_class(x))}
