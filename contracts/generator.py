"""Contracts for json_to_models/generator.py (C01, C02, C07, C08, C09, C13)."""
from pyvc.dsl import *

MG = "json_to_models/generator.py::MetadataGenerator"


@contract(MG + ".__init__", props=["C13"], verify=False)
class GeneratorInit:
    modifies = ["str_types_registry", "dict_keys_regex", "dict_keys_fields"]

    def raises(self, str_types_registry, dict_keys_regex, dict_keys_fields):
        return {"*": True}

IRMOD = ["_type", "_types", "_hash", "_sorted"]


@contract(MG + ".generate", props=["C01", "C02", "C07", "C08", "C13"], verify=False)
class Generate:
    """bounded only for now (IR-level clauses are carried by _detect_type / merge_field_sets / optimize_type)"""
    sorts = {"data_variants": "tuple", "result": "dict"}
    modifies = ["_type", "_types", "_hash", "_sorted"]

    def raises(self, data_variants):
        return {"*": True}
