"""Contracts for json_to_models/generator.py (C01, C02, C07, C08, C09, C13)."""
from pyvc.dsl import *

MG = "json_to_models/generator.py::MetadataGenerator"


@contract(MG + ".__init__", props=["C13"], verify=False)
class GeneratorInit:
    modifies = ["str_types_registry", "dict_keys_regex", "dict_keys_fields"]

    def raises(self, str_types_registry, dict_keys_regex, dict_keys_fields):
        return {"*": True}

IRMOD = ["_type", "_types", "_hash", "_sorted"]


@contract(MG + ".generate", props=["C01", "C02", "C07", "C08", "C13"], verify=False)
class Generate:
    """bounded only for now (IR-level clauses are carried by _detect_type / merge_field_sets / optimize_type)"""
    sorts = {"data_variants": "tuple", "result": "dict"}
    modifies = ["_type", "_types", "_hash", "_sorted"]

    def raises(self, data_variants):
        return {"*": True}


@contract(MG + "._convert", props=["C13", "C17", "C01"])
class Convert:
    """C13: an object becomes a model with exactly its keys; the dict-keys-fields option applies to the direct value of a
    named field only; C17: a non-string key is an error (TypeError)."""
    sorts = {"data": "dict", "result": "dict", "fields": "dict", "dict_keys_fields": "set", "convert_dict": "bool"}

    def requires(self, data):
        return {"json_values": forall(data, lambda k: is_json(data[k])),
                "registry_wf": registry_wf(self.str_types_registry)}

    def raises(self, data):
        return {"TypeError": True}

    def ensures(self, data, result):
        return {
            "is_model": ty_is(result, dict),
            "same_keys": forall(data, lambda k: k in result) and forall(result, lambda k: k in data),
            "all_keys_are_strings": forall(data, lambda k: ty_is(k, str)),
            "field_types": forall(data, lambda k: result[k] is old(self._detect_type(data[k], not (k in self.dict_keys_fields)))),
        }


@loop(MG + "._convert", 1)
def convert_loop(self, data, fields, _it, _seq):
    return {
        "model": ty_is(fields, dict),
        "seen_in": forall(range(_it), lambda j: _seq[j] in fields and ty_is(_seq[j], str)
                          and fields[_seq[j]] is old(self._detect_type(data[_seq[j]], not (_seq[j] in self.dict_keys_fields)))),
        "only_seen": forall(fields, lambda k: exists(range(_it), lambda j: _seq[j] is k)),
    }


@contract(MG + "._detect_type", props=["C13", "C09"])
class DetectType:
    """C13: an object becomes Dict[str, T] exactly when it is empty, or conversion is disabled for this field, or all of its keys
    match one of the dict-key regexes; every other object becomes a model.  C09: a string is classified as the FIRST registered
    pseudo-type whose parser accepts it, else it is a one-element literal."""
    sorts = {"convert_dict": "bool", "dict_keys_regex": "list", "dict_keys_regex[]": "obj:Pattern", "types": "list", "types[]": "class",
             "str_types_registry": "obj:StringSerializableRegistry", "str_types_registry[]": "class", "types": "list"}

    def requires(self, value, convert_dict):
        return {"json_value": is_json(value),
                "registry_wf": registry_wf(self.str_types_registry)}

    def raises(self, value, convert_dict):
        return {"TypeError": True}

    def ensures(self, value, convert_dict, result):
        regs = self.dict_keys_regex
        all_match = exists(regs, lambda r: forall(as_dict(value), lambda k: matches(r, sval(k))))
        as_mapping = isinstance(value, dict) and (dict_len(value) == 0 or not convert_dict or all_match)
        reg_types = as_list(attr_of(self.str_types_registry, "types"))
        return {
            "dict_iff_option@C13": ty_is(result, DDict) == as_mapping,
            "model_otherwise@C13": ty_is(result, dict) == (isinstance(value, dict) and not as_mapping),
            "first_accepting_type@C09": implies(ty_is(value, str),
                                                exists(range(seq_len(reg_types)), lambda j: result is at(reg_types, j) and accepts(at(reg_types, j), sval(value))
                                                       and forall(range(j), lambda k: not accepts(at(reg_types, k), sval(value))))
                                                or (forall(range(seq_len(reg_types)), lambda k: not accepts(at(reg_types, k), sval(value)))
                                                    and ty_is(result, StringLiteral))),
            "scalars": implies(ty_is(value, int), result is int) and implies(ty_is(value, float), result is float) and implies(ty_is(value, bool), result is bool),
            "null": implies(is_none(value), result is Null),
            "list": implies(ty_is(value, list), ty_is(result, DList)),
            "list_items_are_not_direct_values@C13": implies(ty_is(value, list) and seq_len(value) > 0,
                                                            seq_len(local("types")) == seq_len(value) and
                                                            forall(range(seq_len(value)), lambda j: at(local("types"), j) is old(self._detect_type(at(value, j), True)))),
            "single_item_list@C13": implies(ty_is(value, list) and seq_len(value) == 1, attr_of(result, "_type") is old(self._detect_type(at(value, 0), True))),
        }


@loop(MG + "._detect_type", 1)
def detect_regex_loop(self, value, convert_dict, pre_convert_dict, _it, _seq):
    return {"unchanged_until_match": convert_dict == pre_convert_dict,
            "no_match_before": forall(range(_it), lambda j: not forall(as_dict(value), lambda k: matches(_seq[j], sval(k))))}


@loop(MG + "._detect_type", 2)
def detect_registry_loop(self, value, pre_value, _it, _seq):
    return {"value_kept": value is pre_value,
            "none_accepted_before": forall(range(_it), lambda j: not accepts(_seq[j], sval(pre_value)))}
