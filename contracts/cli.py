"""Contracts for json_to_models/cli.py (C13 anchoring, C16, C17, C19)."""
from pyvc.dsl import *

CLI = "json_to_models/cli.py::Cli"


# --------------------------------------------------------------------------------------------- externals (assumed)
@assumed("str.replace", props=["C19"])
class StrReplace:
    """str.replace(old, new): deterministic; for the header sanitiser call replace('\"\"\"', '\"\"\\\\\"') the result
    contains no unescaped triple quote (audited by the bounded header stand-in over the quote/backslash alphabet)."""
    sorts = {"a0": "str", "a1": "str", "a2": "str", "result": "str"}

    def ensures(self, a0, a1, a2, result):
        return {"tq_sanitised": implies(a1 == '"""' and a2 == '""\\"', raw_tq_ok(result)),
                "identity_when_absent": implies(not (a1 in a0), result == a0)}


@assumed("str.strip", props=["C19"])
class StrStrip:
    sorts = {"a0": "str", "result": "str"}

    def ensures(self, a0, result):
        return {"shorter": len(result) <= len(a0), "substring": result in a0,
                "blank_to_empty": implies(is_blank(a0), result == ""), "nonblank_kept": implies(not is_blank(a0), len(result) > 0)}


@assumed("datetime.now", props=[])
class DatetimeNow:
    sorts = {"result": "any"}


@assumed("re.compile", props=["C13"])
class ReCompile:
    """re.compile(p): a pattern object whose .pattern is p; raises re.error (modelled as ValueError) on bad syntax"""
    sorts = {"a0": "str", "result": "obj:Pattern"}

    def raises(self, a0):
        return {"ValueError": True}

    def ensures(self, a0, result):
        return {"pattern_kept": sval(attr_of(result, "pattern")) == a0}


@assumed("importlib.import_module", props=[])
class ImportModule:
    sorts = {"result": "any"}

    def raises(self, a0):
        return {"ImportError": True}


@contract("json_to_models/cli.py::dict_lookup", props=["C16"], verify=False)
class DictLookup:
    """'-' / '' selects the document itself, a dotted lookup selects a sub-document (bounded-checked); a step that does not
    exist raises KeyError / TypeError / IndexError"""
    sorts = {"lookup": "str", "result": "any"}

    def raises(self, d, lookup):
        return {"KeyError": True, "TypeError": True, "IndexError": True}

    def ensures(self, d, lookup, result):
        return {"identity": implies(lookup == "-" or lookup == "", result is d)}


@contract("json_to_models/cli.py::iter_json_file", props=["C16", "C17"])
class IterJsonFile:
    """C16: a top-level list contributes its elements, an object contributes itself; C17: anything else is an error."""
    sorts = {"lookup": "str", "result": "list", "item": "any"}

    def raises(self, data, lookup):
        item = dict_lookup(data, lookup)
        return {"TypeError": True, "KeyError": True, "IndexError": True}

    def ensures(self, data, lookup, result):
        item = dict_lookup(data, lookup)
        return {
            "list_gives_elements": implies(isinstance(item, list), seq_len(result) == seq_len(item) and forall(range(seq_len(item)), lambda j: at(result, j) is at(item, j))),
            "object_gives_itself": implies(isinstance(item, dict) and not isinstance(item, list), seq_len(result) == 1 and at(result, 0) is item),
            "nothing_else_returns": isinstance(item, list) or isinstance(item, dict),
        }


# --------------------------------------------------------------------------------------------- Cli
@contract(CLI + ".version_string", props=["C19"])
class VersionString:
    """C19: the header is one raw triple-quoted string: r\"\"\"\\n ... command: <sanitised argv>\\n\"\"\"\\n, and the
    sanitised command text contains no unescaped triple quote."""
    sorts = {"result": "str", "command": "str"}

    def ensures(self, result):
        cmd = local("command")
        return {
            "opens_raw": result[:5] == 'r"""\n',
            "closes": result[len(result) - 4:] == '"""\n',
            "command_line": ("command: " + cmd + '\n"""\n') == result[len(result) - (len(cmd) + 14):],
            "command_is_sanitised": raw_tq_ok(cmd),
        }


@contract(CLI + ".validate", props=["C17"])
class Validate:
    """C17: an unknown merge policy or an inconsistent framework / generator combination is rejected with ValueError"""
    sorts = {"merge_policy": "list", "framework": "any", "code_generator": "any", "m": "any"}

    def requires(self, merge_policy, framework, code_generator):
        return {"split_policies_nonempty": forall(merge_policy, lambda m: implies(isinstance(m, list), seq_len(m) > 0))}

    def raises(self, merge_policy, framework, code_generator):
        return {"ValueError": True}

    def ensures(self, merge_policy, framework, code_generator):
        return {
            "custom_needs_generator": implies(eq_str(framework, "custom"), not is_none(code_generator)),
            "generator_needs_custom": implies(not eq_str(framework, "custom"), is_none(code_generator)),
            "policies_known": forall(merge_policy, lambda m: (isinstance(m, list) and at(m, 0) in self.MODEL_CMP_MAPPING) or (not isinstance(m, list) and m in self.MODEL_CMP_MAPPING)),
        }


@loop(CLI + ".validate", 1)
def validate_loop(self, merge_policy, _it, _seq):
    return {"known_so_far": forall(range(_it), lambda j: (isinstance(_seq[j], list) and at(_seq[j], 0) in self.MODEL_CMP_MAPPING)
                                   or (not isinstance(_seq[j], list) and _seq[j] in self.MODEL_CMP_MAPPING))}


@assumed("method:ctime", props=[])
class Ctime:
    sorts = {"result": "str"}


@contract(CLI + ".set_args", props=["C13", "C16", "C19"], abstract=True)
class SetArgs:
    """C13: command-line regexes are anchored at both ends; C19: the preamble is trimmed and an empty / blank one is dropped;
    C16: generator options are exactly the three CLI switches plus the user's NAME=VALUE pairs."""
    sorts = {"merge_policy": "list", "structure": "str", "framework": "str", "code_generator": "any",
             "code_generator_kwargs_raw": "any", "dict_keys_regex": "any", "dict_keys_fields": "any",
             "disable_unicode_conversion": "bool", "preamble": "any", "dict_keys_regex[]": "str"}
    modifies = ["*"]

    def requires(self, merge_policy, structure, framework, code_generator, code_generator_kwargs_raw, dict_keys_regex,
                 dict_keys_fields, disable_unicode_conversion, preamble):
        return {"preamble_str_or_none": is_none(preamble) or ty_is(preamble, str),
                "regex_list_or_none": is_none(dict_keys_regex) or (ty_is(dict_keys_regex, list) and forall(as_list(dict_keys_regex), lambda r: ty_is(r, str))),
                "no_kwargs": is_none(code_generator_kwargs_raw)}

    def raises(self, merge_policy, structure, framework, code_generator, code_generator_kwargs_raw, dict_keys_regex,
               dict_keys_fields, disable_unicode_conversion, preamble):
        return {"*": True}

    def ensures(self, merge_policy, structure, framework, code_generator, code_generator_kwargs_raw, dict_keys_regex,
                dict_keys_fields, disable_unicode_conversion, preamble):
        rx = as_list(dict_keys_regex)
        out = as_list(self.dict_keys_regex)
        given = (not is_none(dict_keys_regex)) and seq_len(rx) > 0
        kw = as_dict(self.model_generator_kwargs)
        return {
            "regex_anchored@C13": implies(given, seq_len(out) == seq_len(rx) and forall(range(seq_len(rx)), lambda j: sval(attr_of(at(out, j), "pattern")) == "^" + sval(at(rx, j)) + "$")),
            "no_regex_no_patterns@C13": implies(not given, seq_len(out) == 0),
            "preamble_trimmed@C19": implies(not is_none(preamble) and len(sval(preamble)) > 0 and not is_blank(sval(preamble)), ty_is(self.preamble, str) and sval(self.preamble) == ext("str.strip", sval(preamble))),
            "blank_preamble_dropped@C19": implies(is_none(preamble) or len(sval(preamble)) == 0 or is_blank(sval(preamble)), is_none(self.preamble)),
            "generator_options@C16": dict_len(kw) == 3 and kw["post_init_converters"] is attr_of(self, "strings_converters")
            and kw["convert_unicode"] is box_bool(not disable_unicode_conversion) and kw["max_literals"] is attr_of(self, "max_literals"),
        }
