"""Contracts for json_to_models/cli.py (C13 anchoring, C16, C17, C19)."""
from pyvc.dsl import *

CLI = "json_to_models/cli.py::Cli"


# --------------------------------------------------------------------------------------------- externals (assumed)
@assumed("str.replace", props=["C19"])
class StrReplace:
    """str.replace(old, new): deterministic; for the header sanitiser call replace('\"\"\"', '\"\"\\\\\"') the result
    contains no unescaped triple quote (audited by the bounded header stand-in over the quote/backslash alphabet)."""
    sorts = {"a0": "str", "a1": "str", "a2": "str", "result": "str"}

    def ensures(self, a0, a1, a2, result):
        return {"tq_sanitised": implies(a1 == '"""' and a2 == '""\\"', raw_tq_ok(result)),
                "identity_when_absent": implies(not (a1 in a0), result == a0)}


@assumed("str.strip", props=["C19"])
class StrStrip:
    sorts = {"a0": "str", "result": "str"}

    def ensures(self, a0, result):
        return {"shorter": len(result) <= len(a0), "substring": result in a0,
                "blank_to_empty": implies(is_blank(a0), result == ""), "nonblank_kept": implies(not is_blank(a0), len(result) > 0)}


@assumed("datetime.now", props=[])
class DatetimeNow:
    sorts = {"result": "any"}


@assumed("re.compile", props=["C13"])
class ReCompile:
    """re.compile(p): a pattern object whose .pattern is p; raises re.error (modelled as ValueError) on bad syntax"""
    sorts = {"a0": "str", "result": "obj:Pattern"}

    def raises(self, a0):
        return {"ValueError": True}

    def ensures(self, a0, result):
        return {"pattern_kept": sval(attr_of(result, "pattern")) == a0}


@assumed("importlib.import_module", props=[])
class ImportModule:
    sorts = {"result": "any"}

    def raises(self, a0):
        return {"ImportError": True}


@contract("json_to_models/cli.py::dict_lookup", props=["C16", "C17"])
class DictLookup:
    """'-' / '' selects the document itself, a dotted lookup selects a sub-document (bounded-checked); a step that does not
    exist raises KeyError / TypeError / IndexError"""
    sorts = {"lookup": "str", "result": "any"}

    def raises(self, d, lookup):
        return {"KeyError": True, "TypeError": True, "IndexError": True}

    def ensures(self, d, lookup, result):
        return {"identity": implies(lookup == "-" or lookup == "", result is d)}


@loop("json_to_models/cli.py::dict_lookup", 1)
def dict_lookup_loop(d, lookup, pre_d, pre_lookup):
    return {"untouched_or_real_path": (d is pre_d and lookup == pre_lookup) or not (pre_lookup == "-" or pre_lookup == "")}


@assumed("str.split:maxsplit", props=[])
class StrSplitMax:
    """s.split(sep, maxsplit): a non-empty list of at most maxsplit + 1 strings"""
    sorts = {"a0": "str", "a1": "str", "a2": "int", "result": "list"}

    def ensures(self, a0, a1, a2, result):
        return {"nonempty": seq_len(result) >= 1, "strs": forall(result, lambda p: ty_is(p, str)), "is_list": ty_is(result, list),
                "at_most_maxsplit_plus_one": implies(a2 >= 0, seq_len(result) <= a2 + 1)}


@contract("json_to_models/cli.py::iter_json_file", props=["C16", "C17"])
class IterJsonFile:
    """C16: a top-level list contributes its elements, an object contributes itself; C17: anything else is an error."""
    sorts = {"lookup": "str", "result": "list", "item": "any"}

    def raises(self, data, lookup):
        item = dict_lookup(data, lookup)
        return {"TypeError": True, "KeyError": True, "IndexError": True}

    def ensures(self, data, lookup, result):
        item = dict_lookup(data, lookup)
        return {
            "list_gives_elements": implies(isinstance(item, list), seq_len(result) == seq_len(item) and forall(range(seq_len(item)), lambda j: at(result, j) is at(item, j))),
            "object_gives_itself": implies(isinstance(item, dict) and not isinstance(item, list), seq_len(result) == 1 and at(result, 0) is item),
            "nothing_else_returns": isinstance(item, list) or isinstance(item, dict),
        }


# --------------------------------------------------------------------------------------------- Cli
@contract(CLI + ".version_string", props=["C19"])
class VersionString:
    """C19: the header is one raw triple-quoted string: r\"\"\"\\n ... command: <sanitised argv>\\n\"\"\"\\n, and the
    sanitised command text contains no unescaped triple quote."""
    sorts = {"result": "str", "command": "str"}

    def ensures(self, result):
        cmd = local("command")
        return {
            "opens_raw": result[:5] == 'r"""\n',
            "closes": result[len(result) - 4:] == '"""\n',
            "command_line": ("command: " + cmd + '\n"""\n') == result[len(result) - (len(cmd) + 14):],
            "command_is_sanitised": raw_tq_ok(cmd),
        }


@contract(CLI + ".validate", props=["C17"])
class Validate:
    """C17: an unknown merge policy or an inconsistent framework / generator combination is rejected with ValueError"""
    sorts = {"merge_policy": "list", "framework": "any", "code_generator": "any", "m": "any"}

    def requires(self, merge_policy, framework, code_generator):
        return {"split_policies_nonempty": forall(merge_policy, lambda m: implies(isinstance(m, list), seq_len(m) > 0))}

    def raises(self, merge_policy, framework, code_generator):
        return {"ValueError": True}

    def ensures(self, merge_policy, framework, code_generator):
        return {
            "custom_needs_generator": implies(eq_str(framework, "custom"), not is_none(code_generator)),
            "generator_needs_custom": implies(not eq_str(framework, "custom"), is_none(code_generator)),
            "policies_known": forall(merge_policy, lambda m: (isinstance(m, list) and at(m, 0) in self.MODEL_CMP_MAPPING) or (not isinstance(m, list) and m in self.MODEL_CMP_MAPPING)),
        }


@loop(CLI + ".validate", 1)
def validate_loop(self, merge_policy, _it, _seq):
    return {"known_so_far": forall(range(_it), lambda j: (isinstance(_seq[j], list) and at(_seq[j], 0) in self.MODEL_CMP_MAPPING)
                                   or (not isinstance(_seq[j], list) and _seq[j] in self.MODEL_CMP_MAPPING))}


@assumed("method:ctime", props=[])
class Ctime:
    sorts = {"result": "str"}


@contract(CLI + ".set_args", props=["C13", "C16", "C19"], abstract=True)
class SetArgs:
    """C13: command-line regexes are anchored at both ends; C19: the preamble is trimmed and an empty / blank one is dropped;
    C16: generator options are exactly the three CLI switches plus the user's NAME=VALUE pairs."""
    sorts = {"merge_policy": "list", "structure": "str", "framework": "str", "code_generator": "any",
             "code_generator_kwargs_raw": "any", "dict_keys_regex": "any", "dict_keys_fields": "any",
             "disable_unicode_conversion": "bool", "preamble": "any", "dict_keys_regex[]": "str"}
    modifies = ["*"]

    def requires(self, merge_policy, structure, framework, code_generator, code_generator_kwargs_raw, dict_keys_regex,
                 dict_keys_fields, disable_unicode_conversion, preamble):
        return {"preamble_str_or_none": is_none(preamble) or ty_is(preamble, str),
                "regex_list_or_none": is_none(dict_keys_regex) or (ty_is(dict_keys_regex, list) and forall(as_list(dict_keys_regex), lambda r: ty_is(r, str))),
                }

    def raises(self, merge_policy, structure, framework, code_generator, code_generator_kwargs_raw, dict_keys_regex,
               dict_keys_fields, disable_unicode_conversion, preamble):
        return {"*": True}

    def ensures(self, merge_policy, structure, framework, code_generator, code_generator_kwargs_raw, dict_keys_regex,
                dict_keys_fields, disable_unicode_conversion, preamble):
        rx = as_list(dict_keys_regex)
        out = as_list(self.dict_keys_regex)
        given = (not is_none(dict_keys_regex)) and seq_len(rx) > 0
        kw = as_dict(self.model_generator_kwargs)
        return {
            "regex_anchored@C13": implies(given, seq_len(out) == seq_len(rx) and forall(range(seq_len(rx)), lambda j: sval(attr_of(at(out, j), "pattern")) == "^" + sval(at(rx, j)) + "$")),
            "no_regex_no_patterns@C13": implies(not given, seq_len(out) == 0),
            "preamble_trimmed@C19": implies(not is_none(preamble) and len(sval(preamble)) > 0 and not is_blank(sval(preamble)), ty_is(self.preamble, str) and sval(self.preamble) == ext("str.strip", sval(preamble))),
            "preamble_ok@C19": is_none(self.preamble) or ty_is(self.preamble, str),
            "blank_preamble_dropped@C19": implies(is_none(preamble) or len(sval(preamble)) == 0 or is_blank(sval(preamble)), is_none(self.preamble)),
            "generator_options@C16": implies(not truthy(code_generator_kwargs_raw), dict_len(kw) == 3 and kw["post_init_converters"] is attr_of(self, "strings_converters")
                                             and kw["convert_unicode"] is box_bool(not disable_unicode_conversion) and kw["max_literals"] is attr_of(self, "max_literals")),
        }


@contract("json_to_models/cli.py::path_split", props=[], verify=False)
class PathSplit:
    """the components of a path (assumed: a pure function of the text; os.path.split is external)"""
    sorts = {"path": "str", "result": "list", "result[]": "str"}
    deterministic = True

    def ensures(self, path, result):
        return {"strs": ty_is(result, list) and forall(range(seq_len(result)), lambda i: ty_is(at(result, i), str))}


@assumed("itertools.takewhile", props=[])
class TakeWhile:
    """takewhile(pred, xs): the longest prefix of xs whose elements all satisfy pred"""
    sorts = {"a1": "list", "result": "list"}

    def ensures(self, a0, a1, result):
        return {"is_prefix": ty_is(result, list) and seq_len(result) <= seq_len(a1) and forall(range(seq_len(result)), lambda i: at(result, i) is at(a1, i) and truthy(a0(sval(at(a1, i))))),
                "maximal": implies(seq_len(result) < seq_len(a1), not truthy(a0(sval(at(a1, seq_len(result)))))),
                # lists are values in this model (S5): the prefix of full length is the list
                "whole_list_when_nothing_stops_it": implies(seq_len(result) == seq_len(a1), result is a1)}


@assumed("os.path.join", props=[])
class OsPathJoin:
    sorts = {"a0": "list", "result": "str"}
    deterministic = True


@assumed("Path", props=[])
class PathCtor:
    sorts = {"a0": "str", "result": "any"}
    deterministic = True


@assumed("method:glob", props=[])
class PathGlob:
    sorts = {"result": "list"}

    def raises(self, a0, a1):
        return {"*": True}


@spec
def no_glob_chars(part):
    return not ("*" in sval(part)) and not ("?" in sval(part))


@contract("json_to_models/cli.py::process_path", props=["C16", "C17"])
class ProcessPath:
    """C16/C17: a path none of whose components contains `*` or `?` names exactly one file - it is returned as is (never globbed, so a
    missing file is reported by the loader and a literal `[` is not a character class); only a real pattern is expanded."""
    sorts = {"path": "any", "result": "any", "split_path": "list", "clean_path": "any", "pattern_path": "any"}

    def raises(self, path):
        return {"*": True}

    def ensures(self, path, result):
        parts = path_split(path)
        literal = forall(range(seq_len(parts)), lambda i: no_glob_chars(at(parts, i)))
        return {"literal_path_is_one_file": implies(literal and seq_len(parts) > 0,
                                                    seq_len(result) == 1 and at(result, 0) is ext("Path", ext("os.path.join", parts)))}


@contract(CLI + ".setup_models_data", props=["C16", "C17"], abstract=True)
class SetupModelsData:
    """C17: every sample file is loaded, looked up and validated here, i.e. before any generation; nothing is printed or written."""
    sorts = {"models": "any", "models_lists": "any"}
    modifies = ["*"]

    def raises(self, models, models_lists, parser):
        return {"*": True}

    def ensures(self, models, models_lists, parser):
        return {"no_output@C17": no_effects()}

    def ensures_exc(self, models, models_lists, parser):
        return {"no_output_on_failure@C17": no_effects()}


@contract(CLI + ".parse_args", props=["C17", "C16"], abstract=True)
class ParseArgs:
    """C17: argument handling never prints model code or touches the output file, whether it succeeds or fails."""
    modifies = ["*"]

    def requires(self, args):
        return {"default_registry_wf": registry_wf(registry)}

    def raises(self, args):
        return {"*": True}

    def ensures(self, args):
        return {"no_output@C17": no_effects(), "preamble_ok@C19": is_none(self.preamble) or ty_is(self.preamble, str)}

    def ensures_exc(self, args):
        return {"no_output_on_failure@C17": no_effects()}


@assumed("attr:structure_fn", props=[])
class StructureFnCall:
    """self.structure_fn(models_map): one of compose_models / compose_models_flat (may raise)"""
    sorts = {"result": "tuple"}

    def raises(self, a0, a1):
        return {"*": True}

    def ensures(self, a0, a1, result):
        return {"pair": seq_len(result) == 2,
                # both layout functions build lists of {"model", "nested"} nodes (assumed here; the bounded C12 stand-in walks them)
                "layout_nodes": nodes_ok(at(result, 0))}


@contract(CLI + ".run", props=["C16", "C17"], abstract=True, abstract_calls=["generate"])
class Run:
    """C17: the output file is opened only after the complete text exists, so every failure leaves it untouched and prints nothing;
    C16: what is written with -o is exactly the text that would have been returned for printing (header + generated code)."""
    sorts = {"result": "str", "output": "str", "output_file": "any", "enable_datetime": "bool", "models_data": "dict"}
    modifies = ["*"]

    def requires(self):
        return {"preamble_ok": is_none(self.preamble) or ty_is(self.preamble, str)}

    def raises(self):
        return {"*": True}

    def ensures(self, result):
        out = local("output")
        to_file = truthy(old(self.output_file))
        return {
            "stdout_text_is_output@C16": implies(not to_file, result == out and no_effects()),
            "file_gets_same_text@C16,C17": implies(to_file, effects() == 2 and written_text() == out and opened_path() is old(self.output_file)),
        }

    def ensures_exc(self):
        return {"nothing_written_on_failure@C17": no_effects()}


@loop(CLI + ".run", 1)
def run_loop(_it, _seq):
    return {"nothing_written_yet": no_effects()}


@contract("json_to_models/cli.py::main", props=["C17"], abstract=True)
class Main:
    """C17: model code is printed only after run() returned normally; a failure anywhere propagates (non-zero exit) with no output."""
    modifies = ["*", "*effects"]

    def requires(self):
        return {"default_registry_wf": registry_wf(registry)}

    def raises(self):
        return {"*": True}

    def ensures_exc(self):
        return {"nothing_printed_on_failure@C17": no_effects()}


@assumed("method:parse_args", props=[])
class ArgparseParse:
    """argparse.ArgumentParser.parse_args: the namespace attributes have the types the parser declares
    (str options are str or None, nargs options are lists of str or None, flags are bool); may exit/raise."""
    sorts = {"result": "any"}

    def raises(self, a0, a1):
        return {"*": True}

    def ensures(self, a0, a1, result):
        return {
            "preamble": is_none(attr_of(result, "preamble")) or ty_is(attr_of(result, "preamble"), str),
            "dkr": is_none(attr_of(result, "dict_keys_regex")) or (ty_is(attr_of(result, "dict_keys_regex"), list) and forall(as_list(attr_of(result, "dict_keys_regex")), lambda r: ty_is(r, str))),
            "merge": ty_is(attr_of(result, "merge"), list) and forall(as_list(attr_of(result, "merge")), lambda r: ty_is(r, str)),
        }


@assumed("str.split", props=[])
class StrSplit:
    """s.split(sep[, maxsplit]): a non-empty list of str"""
    sorts = {"a0": "str", "a1": "str", "result": "list"}

    def ensures(self, a0, a1, result):
        return {"nonempty": seq_len(result) >= 1, "strs": forall(result, lambda p: ty_is(p, str)), "is_list": ty_is(result, list)}


@loop(CLI + ".parse_args", 1)
def parse_args_loop(_it, _seq):
    return {"nothing_written_yet": no_effects(), "registry_wf": registry_wf(registry)}


@contract(CLI + ".__init__", props=[], verify=False)
class CliInit:
    modifies = ["initialized", "models_data", "enable_datetime", "strings_converters", "max_literals", "merge_policy",
                "structure_fn", "model_generator", "model_generator_kwargs", "argparser"]


@assumed("os.getenv", props=[])
class OsGetenv:
    sorts = {"result": "any"}


@assumed("coverage.process_startup", props=[])
class CoverageStartup:
    """test-infrastructure hook; assumed not to touch the library's objects or produce output"""
    sorts = {"result": "any"}
