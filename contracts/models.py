"""Contracts for json_to_models/models/* (C01, C03, C04, C11, C18)."""
from pyvc.dsl import *

GEN = "json_to_models/models/base.py::GenericModelCodeGenerator"
PYD = "json_to_models/models/pydantic.py::PydanticModelCodeGenerator"
SQL = "json_to_models/models/sqlmodel.py::SqlModelCodeGenerator"
ATT = "json_to_models/models/attr.py::AttrsModelCodeGenerator"
DC = "json_to_models/models/dataclasses.py::DataclassModelCodeGenerator"


# --------------------------------------------------------------------------------------------- trusted / external
@assumed("template", props=[])
class TemplateFactory:
    """models.base.template(): dedents the pattern and returns a jinja2.Template (trusted; the nine template
    sources are audited by the bounded rendering stand-in)."""
    sorts = {"result": "obj:Template"}


@assumed("jinja2.Template.render", props=[])
class TemplateRender:
    """Template.render(**kwargs) is a deterministic function of the template and the keyword arguments."""
    sorts = {"result": "str"}


@contract("json_to_models/dynamic_typing/typing.py::metadata_to_typing", props=["C04"], verify=False)
class MetadataToTyping:
    sorts = {"result": "tuple", "types_style": "any"}

    def ensures(self, t, types_style, result):
        return {"pair": seq_len(result) == 2 and ty_is(at(result, 0), list) and ty_is(at(result, 1), str)}


@spec
def key_ok(self, name):
    """the documented key domain (C11): something is left of the key once non-word characters are removed"""
    return len(ext("re.sub", "\\W", "", ext("unidecode", name) if self.convert_unicode else name)) > 0


@spec
def blacklist_ok():
    """a property of the module constant blacklist_words: appending '_' to a blacklisted word escapes the blacklist"""
    return forall(blacklist_words, lambda w: not (box_str(sval(w) + "_") in blacklist_words))


@contract(GEN + ".convert_field_name", props=["C11", "C04"])
class ConvertFieldName:
    """the field name of a key is prepare_label(key) in snake case, with this generator's unicode option (C04 'the Python name is the
    sanitised key').  The @cached_method wrapper is read as transparent (DESIGN 2.2); the bounded C04/C11 stand-ins cover the cache."""
    sorts = {"name": "str", "result": "str", "convert_unicode": "bool", "blacklist_words": "set"}

    def requires(self, name):
        return {"key_has_a_word_character": key_ok(self, name), "suffix_escapes_blacklist": blacklist_ok()}

    def ensures(self, name, result):
        return {"is_snake_case_label": result == prepare_label(name, self.convert_unicode, True)}


@contract(GEN + ".convert_class_name", props=["C11", "C03"])
class ConvertClassName:
    sorts = {"name": "str", "result": "str", "convert_unicode": "bool", "blacklist_words": "set"}

    def requires(self, name):
        return {"key_has_a_word_character": key_ok(self, name), "suffix_escapes_blacklist": blacklist_ok()}

    def ensures(self, name, result):
        return {"is_label": result == prepare_label(name, self.convert_unicode, False)}


@contract(SQL + ".convert_field_name", props=["C11", "C04"])
class SqlConvertFieldName:
    sorts = {"name": "str", "result": "str", "convert_unicode": "bool", "blacklist_words": "set"}

    def requires(self, name):
        return {"key_has_a_word_character": key_ok(self, name), "suffix_escapes_blacklist": blacklist_ok()}

    def ensures(self, name, result):
        return {"id_pk_kept": implies(name == "id" or name == "pk", result == name),
                "otherwise_the_label": implies(not (name == "id" or name == "pk"), result == prepare_label(name, self.convert_unicode, True))}


@contract("json_to_models/models/base.py::sort_kwargs", props=["C04"], verify=False)
class SortKwargs:
    """same items, reordered (bounded-checked only)"""
    sorts = {"kwargs": "dict", "result": "dict"}

    def ensures(self, kwargs, ordering, result):
        return {"same_items": forall(kwargs, lambda k: k in result and result[k] is kwargs[k]) and forall(result, lambda k: k in kwargs)}


# --------------------------------------------------------------------------------------------- field data (C04 / C11)
@contract(GEN + ".field_data", props=["C04", "C11"])
class GenericFieldData:
    """name = sanitised key, type = rendering of the inferred type; nothing else (the base generator emits no default)."""
    sorts = {"name": "str", "optional": "bool", "result": "tuple", "data": "dict", "convert_unicode": "bool", "blacklist_words": "set"}

    def requires(self, name, meta, optional):
        return {"key_has_a_word_character": key_ok(self, name), "suffix_escapes_blacklist": blacklist_ok()}

    def ensures(self, name, meta, optional, result):
        data = at(result, 1)
        return {
            "is_pair": seq_len(result) == 2 and ty_is(data, dict),
            "name_is_label": "name" in as_dict(data) and ty_is(as_dict(data)["name"], str) and sval(as_dict(data)["name"]) == self.convert_field_name(name),
            "type_is_rendering": "type" in as_dict(data) and as_dict(data)["type"] is at(metadata_to_typing(meta, self.types_style), 1),
            "imports_from_type": at(result, 0) is at(metadata_to_typing(meta, self.types_style), 0),
            "no_other_keys": forall(as_dict(data), lambda k: sval(k) == "name" or sval(k) == "type"),
        }


@contract(PYD + "._get_field_kwargs", props=["C04", "C11"])
class PydanticFieldKwargs:
    """C11: whenever the field name differs from its key the exact key is attached as alias (and only then)."""
    sorts = {"name": "str", "optional": "bool", "data": "dict", "result": "dict", "body_kwargs": "dict"}

    def requires(self, name, meta, optional, data):
        return {"has_name": "name" in data and ty_is(data["name"], str)}

    def ensures(self, name, meta, optional, data, result):
        return {
            "alias_iff_renamed": ("alias" in result) == (name != sval(data["name"])),
            "alias_reads_back_as_key": implies("alias" in result, ty_is(result["alias"], str) and pyeval_str(sval(result["alias"])) == name),
            "only_alias": forall(result, lambda k: sval(k) == "alias"),
        }


@contract(SQL + "._get_field_kwargs", props=["C04", "C11"])
class SqlFieldKwargs:
    sorts = {"name": "str", "optional": "bool", "data": "dict", "result": "dict", "kwargs": "dict"}

    def requires(self, name, meta, optional, data):
        return {"has_name": "name" in data and ty_is(data["name"], str)}

    def ensures(self, name, meta, optional, data, result):
        pk = (sval(data["name"]) == "id" or sval(data["name"]) == "pk") and meta is int
        return {
            "alias_iff_renamed": ("alias" in result) == (name != sval(data["name"])),
            "alias_reads_back_as_key": implies("alias" in result, ty_is(result["alias"], str) and pyeval_str(sval(result["alias"])) == name),
            "primary_key_iff_id_int": ("primary_key" in result) == pk,
            "only_these": forall(result, lambda k: sval(k) == "alias" or sval(k) == "primary_key"),
        }


@contract(PYD + ".field_data", props=["C04", "C11", "C01"])
class PydanticFieldData:
    """C04: a field has a default exactly when it is optional: [] / {} for optional containers, None otherwise."""
    sorts = {"name": "str", "optional": "bool", "result": "tuple", "data": "dict", "body_kwargs": "dict", "imports": "any"}

    def requires(self, name, meta, optional):
        return {"optional_is_DOptional": implies(optional, ty_is(meta, DOptional)),
                "key_has_a_word_character": key_ok(self, name), "suffix_escapes_blacklist": blacklist_ok()}

    def ensures(self, name, meta, optional, result):
        data = as_dict(at(result, 1))
        base = as_dict(at(GenericModelCodeGenerator.field_data(self, name, meta, optional), 1))
        kw = self._get_field_kwargs(name, meta, optional, base)
        default = ("[]" if ty_is(meta._type, DList) else ("{}" if ty_is(meta._type, DDict) else "None")) if optional else "..."
        return {
            "is_pair": seq_len(result) == 2 and ty_is(at(result, 1), dict),
            "name_type_kept": data["name"] is base["name"] and data["type"] is base["type"] and "name" in data and "type" in data,
            "body_iff_default_or_kwargs": ("body" in data) == (optional or dict_len(kw) > 0),
            "plain_default": implies(optional and dict_len(kw) == 0, sval(data["body"]) == default),
            "field_call": implies(dict_len(kw) > 0, sval(data["body"]) == self.PYDANTIC_FIELD.render(default=default, kwargs=sort_kwargs(kw, DEFAULT_ORDER))),
        }


@contract(PYD + "._filter_fields", props=["C01", "C04"])
class PydanticFilterFields:
    """C01: the only keys that may be dropped are those whose type is Unknown / Null (every observed value null)."""
    sorts = {"fields": "list", "result": "list", "filtered": "list", "_type": "dict", "fields[]": "str", "filtered[]": "str", "result[]": "str", "_seq[]": "str"}

    def requires(self, fields):
        return {"fields_are_keys": forall(fields, lambda f: f in self.model._type)}

    def ensures(self, fields, result):
        return {
            "kept_iff_typed": forall(fields, lambda f: (f in result) == (not (self.model._type[f] is Unknown or self.model._type[f] is Null))),
            "nothing_new": forall(result, lambda f: f in fields),
        }


@loop(PYD + "._filter_fields", 1)
def pyd_filter_loop(self, fields, filtered, _it, _seq):
    return {
        "kept": forall(range(_it), lambda j: (_seq[j] in filtered) == (not (self.model._type[_seq[j]] is Unknown or self.model._type[_seq[j]] is Null))),
        "sub": forall(filtered, lambda f: exists(range(_it), lambda j: _seq[j] == f)),
    }


@contract(ATT + ".field_data", props=["C04", "C11", "C18"])
class AttrsFieldData:
    """C04: default exactly when optional (factory=list/dict for optional containers, default=None otherwise);
    C11: original-name metadata attached iff enabled and the name differs; C18: per-field converter only with converters off."""
    sorts = {"name": "str", "optional": "bool", "result": "tuple", "data": "dict", "body_kwargs": "dict", "imports": "list"}

    def requires(self, name, meta, optional):
        return {"optional_is_DOptional": implies(optional, ty_is(meta, DOptional)),
                "key_has_a_word_character": key_ok(self, name), "suffix_escapes_blacklist": blacklist_ok()}

    def ensures(self, name, meta, optional, result):
        data = as_dict(at(result, 1))
        base = as_dict(at(GenericModelCodeGenerator.field_data(self, name, meta, optional), 1))
        inner = meta._type
        is_list = optional and ty_is(inner, DList)
        is_dict = optional and ty_is(inner, DDict)
        pseudo_opt = optional and not is_list and not is_dict and is_class(inner) and issubclass(inner, StringSerializable) and not self.post_init_converters
        pseudo_req = (not optional) and is_class(meta) and issubclass(meta, StringSerializable) and not self.post_init_converters
        renamed = (not self.no_meta) and name != sval(base["name"])
        kw = local("body_kwargs")
        return {
            "name_type_kept": data["name"] is base["name"] and data["type"] is base["type"],
            "factory_list": implies(is_list, "factory" in kw and sval(kw["factory"]) == "list"),
            "factory_dict": implies(is_dict, "factory" in kw and sval(kw["factory"]) == "dict"),
            "factory_only_containers": ("factory" in kw) == (is_list or is_dict),
            "default_none": ("default" in kw) == (optional and not is_list and not is_dict),
            "default_is_None": implies("default" in kw, sval(kw["default"]) == "None"),
            "converter_iff_pseudo_and_no_post_init": ("converter" in kw) == (pseudo_opt or pseudo_req),
            "optional_converter_import": implies(pseudo_opt, exists(as_list(at(result, 0)), lambda imp: sval(at(imp, 0)) == "attr.converters" and sval(at(imp, 1)) == "optional")),
            "metadata_iff_renamed": ("metadata" in kw) == renamed,
            "metadata_is_key": implies(renamed, sval(as_dict(kw["metadata"])["J2M_ORIGINAL_FIELD"]) == name and dict_len(kw["metadata"]) == 1),
            "body_is_attrib_call": sval(data["body"]) == self.ATTRIB.render(kwargs=sort_kwargs(kw, DEFAULT_ORDER)),
        }


@contract(DC + ".field_data", props=["C04", "C11", "C18"])
class DataclassFieldData:
    sorts = {"name": "str", "optional": "bool", "result": "tuple", "data": "dict", "body_kwargs": "dict", "imports": "list"}

    def requires(self, name, meta, optional):
        return {"optional_is_DOptional": implies(optional, ty_is(meta, DOptional)),
                "key_has_a_word_character": key_ok(self, name), "suffix_escapes_blacklist": blacklist_ok()}

    def ensures(self, name, meta, optional, result):
        data = as_dict(at(result, 1))
        base = as_dict(at(GenericModelCodeGenerator.field_data(self, name, meta, optional), 1))
        inner = meta._type
        is_list = optional and ty_is(inner, DList)
        is_dict = optional and ty_is(inner, DDict)
        renamed = (not self.no_meta) and name != sval(base["name"])
        kw = local("body_kwargs")
        plain = optional and not is_list and not is_dict and not renamed
        return {
            "name_type_kept": data["name"] is base["name"] and data["type"] is base["type"],
            "body_iff_optional_or_renamed": ("body" in data) == (optional or renamed),
            "plain_none": implies(plain, sval(data["body"]) == "None"),
            "factory_list": implies(is_list, "default_factory" in kw and sval(kw["default_factory"]) == "list"),
            "factory_dict": implies(is_dict, "default_factory" in kw and sval(kw["default_factory"]) == "dict"),
            "factory_only_containers": implies(not plain and (optional or renamed), ("default_factory" in kw) == (is_list or is_dict)),
            "default_none": implies(not plain and (optional or renamed), ("default" in kw) == (optional and not is_list and not is_dict) and implies("default" in kw, sval(kw["default"]) == "None")),
            "metadata_iff_renamed": implies(not plain and (optional or renamed), ("metadata" in kw) == renamed),
            "metadata_is_key": implies(renamed, sval(as_dict(kw["metadata"])["J2M_ORIGINAL_FIELD"]) == name and dict_len(kw["metadata"]) == 1),
            "body_is_field_call": implies(not plain and (optional or renamed), sval(data["body"]) == self.DC_FIELD.render(kwargs=sort_kwargs(kw, DEFAULT_ORDER))),
        }


@contract("json_to_models/models/structure.py::sort_fields", props=["C03", "C04", "C01", "C18"])
class SortFields:
    """C03: required fields are emitted before optional ones; every key is in exactly one of the two lists;
    a key is optional iff its type is Optional[...]"""
    sorts = {"model_meta": "obj:ModelMeta", "unicode_fix": "bool", "result": "tuple", "fields": "dict", "_type": "dict",
             "required": "list", "required_2": "list", "optional": "list"}

    def requires(self, model_meta, unicode_fix):
        return {"str_keys": forall(model_meta._type, lambda k: ty_is(k, str))}

    def ensures(self, model_meta, unicode_fix, result):
        f = model_meta._type
        req = as_list(at(result, 0))
        opt = as_list(at(result, 1))
        return {
            "pair": seq_len(result) == 2,
            "optional_iff_DOptional": forall(f, lambda k: (k in opt) == isinstance(f[k], DOptional)),
            "required_iff_not": forall(f, lambda k: (k in req) == (not isinstance(f[k], DOptional))),
            "only_keys": forall(req, lambda k: k in f) and forall(opt, lambda k: k in f),
            "counts": seq_len(req) + seq_len(opt) == dict_len(f),
        }


@loop("json_to_models/models/structure.py::sort_fields", 1)
def sort_fields_loop(fields, required, required_2, optional, _it, _seq):
    return {
        "opt": forall(range(_it), lambda j: (_seq[j] in optional) == isinstance(fields[_seq[j]], DOptional)),
        "req": forall(range(_it), lambda j: (_seq[j] in required or _seq[j] in required_2) == (not isinstance(fields[_seq[j]], DOptional))),
        "sub": forall(optional, lambda k: k in fields) and forall(required, lambda k: k in fields) and forall(required_2, lambda k: k in fields),
        "count": seq_len(required) + seq_len(required_2) + seq_len(optional) == _it,
        "seen_only": forall(optional, lambda k: exists(range(_it), lambda j: _seq[j] is k)) and forall(required, lambda k: exists(range(_it), lambda j: _seq[j] is k))
        and forall(required_2, lambda k: exists(range(_it), lambda j: _seq[j] is k)),
    }


# --------------------------------------------------------------------------------------------- module assembly (C19, C14, C12)
@specrec
def nodes_ok(structure):
    """a layout structure: a list of nodes {model, nested: <structure>}"""
    return ty_is(structure, list) and forall(as_list(structure), lambda d: ty_is(d, dict) and "nested" in as_dict(d) and "model" in as_dict(d)
                                               and nodes_ok(as_dict(d)["nested"]))


@assumed("param:class_generator", props=["C12"])
class ClassGeneratorCall:
    """class_generator(model, **kwargs): builds the code generator of one model (one of the five generator classes or a user class);
    may raise; the generator it returns is determined by the model and the options"""
    sorts = {"result": "obj:GenericModelCodeGenerator"}
    deterministic = True
    modifies = ["_name", "_name_generated", "__cache__"]

    def raises(self, a0, a1, a2):
        return {"*": True}


@contract(GEN + ".generate", props=["C12", "C04"], verify=False, deterministic=True, covers_overrides=True)
class GeneratorGenerate:
    """(imports, class text) of one model with the given nested class texts (template rendering: bounded only)"""
    sorts = {"result": "tuple", "nested_classes": "any"}
    modifies = ["__cache__"]

    def raises(self, nested_classes, bases, extra):
        return {"*": True}

    def ensures(self, nested_classes, bases, extra, result):
        return {"pair": seq_len(result) == 2 and ty_is(at(result, 0), list) and ty_is(at(result, 1), str)}


@contract("json_to_models/models/base.py::_generate_code", props=["C12"], deterministic=True)
class GenerateCodeRec:
    """C12 'each inferred model is emitted exactly once, each class placed inside the class that references it':
    one class text per structure node, in order; node i is rendered by the generator built for ITS model, and receives exactly the
    class texts of ITS OWN nested structure."""
    sorts = {"structure": "list", "result": "tuple", "imports": "list", "classes": "list", "generators": "list",
             "gen": "obj:GenericModelCodeGenerator", "nested_classes": "any", "class_generator_kwargs": "any", "lvl": "int", "data": "any"}
    modifies = ["_name", "_name_generated", "__cache__"]

    def requires(self, structure, class_generator, class_generator_kwargs, lvl):
        return {"nodes": nodes_ok(structure)}

    def raises(self, structure, class_generator, class_generator_kwargs, lvl):
        return {"*": True}

    def ensures(self, structure, class_generator, class_generator_kwargs, lvl, result):
        classes = as_list(at(result, 1))
        return {
            "pair": seq_len(result) == 2 and ty_is(at(result, 0), list) and ty_is(at(result, 1), list),
            "one_class_per_node": seq_len(classes) == seq_len(structure),
            "node_rendered_with_its_own_children": forall(range(seq_len(structure)), lambda j: at(classes, j) is at(
                GenericModelCodeGenerator.generate(ext("param:class_generator", class_generator, as_dict(at(structure, j))["model"], class_generator_kwargs),
                                                   at(_generate_code(as_dict(at(structure, j))["nested"], class_generator, class_generator_kwargs, lvl + 1), 1)), 1)),
        }


@loop("json_to_models/models/base.py::_generate_code", 1)
def generate_code_loop1(structure, class_generator, class_generator_kwargs, lvl, generators, imports, _it, _seq):
    return {
        "one_per_node": seq_len(generators) == _it and ty_is(generators, list) and ty_is(imports, list),
        "paired_with_own_children": forall(range(_it), lambda j: seq_len(at(generators, j)) == 2
                                           and at(at(generators, j), 0) is ext("param:class_generator", class_generator, as_dict(_seq[j])["model"], class_generator_kwargs)
                                           and at(at(generators, j), 1) is at(_generate_code(as_dict(_seq[j])["nested"], class_generator, class_generator_kwargs, lvl + 1), 1)),
    }


@loop("json_to_models/models/base.py::_generate_code", 2)
def generate_code_loop2(structure, classes, generators, imports, _it, _seq):
    return {
        "one_per_generator": seq_len(classes) == _it and ty_is(classes, list) and ty_is(imports, list),
        "rendered": forall(range(_it), lambda j: at(classes, j) is at(GenericModelCodeGenerator.generate(at(_seq[j], 0), at(_seq[j], 1)), 1)),
    }


@contract("json_to_models/dynamic_typing/typing.py::compile_imports", props=["C03"], verify=False)
class CompileImports:
    sorts = {"imports": "list", "result": "str"}


@contract("json_to_models/models/base.py::generate_code", props=["C19", "C14", "C15"])
class GenerateCode:
    """C19: output = imports block (if any) + preamble block (if given and non-empty: exactly once, after the imports,
    before the first class) + classes joined by the delimiter + newline.
    C14/C15: the thread-local reference context is left exactly as found, on normal and on exceptional exit."""
    sorts = {"structure": "tuple", "objects_delimiter": "str", "result": "str", "imports": "list", "classes": "list",
             "imports_str": "str", "class_generator_kwargs": "any", "preamble": "any"}
    modifies = ["_name", "_name_generated", "__cache__", "context", "$def:context", "_old"]

    def requires(self, structure, class_generator, class_generator_kwargs, objects_delimiter, preamble):
        return {"structure_is_pair": seq_len(structure) == 2,
                "layout_nodes": nodes_ok(at(structure, 0)),
                "preamble_str_or_none": is_none(preamble) or ty_is(preamble, str)}

    def raises(self, structure, class_generator, class_generator_kwargs, objects_delimiter, preamble):
        return {"*": True}

    def ensures(self, structure, class_generator, class_generator_kwargs, objects_delimiter, preamble, result):
        imports = local("imports")
        classes = local("classes")
        imp_block = (compile_imports(imports) + objects_delimiter) if seq_len(imports) > 0 else ""
        pre_block = (sval(preamble) + objects_delimiter) if (not is_none(preamble) and len(sval(preamble)) > 0) else ""
        return {
            "layout@C19": result == imp_block + pre_block + objects_delimiter.join(classes) + "\n",
            "context_restored@C14,C15": tl_get(AbsoluteModelRef.Context.data, "context") is old(tl_get(AbsoluteModelRef.Context.data, "context")),
        }

    def ensures_exc(self, structure, class_generator, class_generator_kwargs, objects_delimiter, preamble):
        return {"context_restored_on_failure@C14,C15": tl_get(AbsoluteModelRef.Context.data, "context") is old(tl_get(AbsoluteModelRef.Context.data, "context"))}


# --------------------------------------------------------------------------------------------- string converters (C18)
SC = "json_to_models/models/string_converters.py"


@contract(SC + "::get_string_field_paths", props=[], verify=False)
class GetStringFieldPaths:
    """stub (work-list walk over the IR, outside the translated subset; decided by the bounded C18 stand-in): a pure function of
    the model giving (JSON key, path tokens) pairs"""
    sorts = {"result": "list"}
    deterministic = True

    def ensures(self, model, result):
        return {"pairs": ty_is(result, list) and forall(range(seq_len(result)), lambda j: at(result, j) is tuple2(at(at(result, j), 0), at(at(result, j), 1))
                                                         and ty_is(at(at(result, j), 0), str) and ty_is(at(at(result, j), 1), list)
                                                         and forall(as_list(at(at(result, j), 1)), lambda tk: ty_is(tk, str)))}


@contract(GEN + ".string_field_paths", props=["C18"])
class StringFieldPaths:
    """C18: the converter paths handed to convert_strings name the ATTRIBUTES of the generated class (the sanitised names), one entry
    per string field found, in the same order; an entry without container tokens is the attribute name itself."""
    sorts = {"result": "list", "convert_unicode": "bool", "blacklist_words": "set"}

    def requires(self):
        found = get_string_field_paths(self.model)
        return {"keys_in_domain": forall(range(seq_len(found)), lambda j: key_ok(self, sval(at(at(found, j), 0)))),
                "suffix_escapes_blacklist": blacklist_ok()}

    def ensures(self, result):
        found = get_string_field_paths(self.model)
        return {
            "one_entry_per_string_field": ty_is(result, list) and seq_len(result) == seq_len(found),
            "entries_name_attributes": forall(range(seq_len(found)), lambda j: implies(
                seq_len(at(at(found, j), 1)) == 0,
                sval(at(result, j)) == self.convert_field_name(sval(at(at(found, j), 0))))),
            "entries_are_attribute_then_tokens": forall(range(seq_len(found)), lambda j: implies(
                seq_len(at(at(found, j), 1)) > 0,
                sval(at(result, j)) == self.convert_field_name(sval(at(at(found, j), 0))) + ("#" + ".".join(at(at(found, j), 1))))),
        }


@specrec
def conv_ok(path, value, t):
    """value is a legal input for the converter path: strings that the leaf pseudo-type accepts, under Optional / List / Dict"""
    return seq_len(path) >= 1 and (
        (sval(at(path, 0)) == "S" and ty_is(value, str) and accepts(t, sval(value)))
        or (sval(at(path, 0)) == "O" and ty_is(type_args(t), tuple) and seq_len(type_args(t)) >= 1 and (is_none(value) or conv_ok(tail(path), value, type_arg(t, 0))))
        or (sval(at(path, 0)) == "L" and ty_is(type_args(t), tuple) and seq_len(type_args(t)) >= 1 and ty_is(value, list)
            and forall(as_list(value), lambda x: conv_ok(tail(path), x, type_arg(t, 0))))
        or (sval(at(path, 0)) == "D" and ty_is(type_args(t), tuple) and seq_len(type_args(t)) >= 2 and ty_is(value, dict)
            and forall(as_dict(value), lambda k: conv_ok(tail(path), as_dict(value)[k], type_arg(t, 1)))))


@specrec
def conv_rel(path, value, t, result):
    """result is value with every leaf string replaced by its parsed pseudo-type value; None kept; containers keep their shape"""
    return seq_len(path) >= 1 and (
        (sval(at(path, 0)) == "S" and result is ext("clsmethod:to_internal_value", t, sval(value)))
        or (sval(at(path, 0)) == "O" and ((is_none(value) and is_none(result)) or (not is_none(value) and conv_rel(tail(path), value, type_arg(t, 0), result))))
        or (sval(at(path, 0)) == "L" and ty_is(result, list) and seq_len(result) == seq_len(value)
            and forall(range(seq_len(value)), lambda i: conv_rel(tail(path), at(value, i), type_arg(t, 0), at(result, i))))
        or (sval(at(path, 0)) == "D" and ty_is(result, dict) and forall(as_dict(value), lambda k: k in as_dict(result) and conv_rel(tail(path), as_dict(value)[k], type_arg(t, 1), as_dict(result)[k]))
            and forall(as_dict(result), lambda k: k in as_dict(value))))


@contract(SC + "::_process_string_field_value", props=["C18"])
class ProcessStringFieldValue:
    """C18: on a value that inhabits the field's type, path interpretation never raises, parses exactly the leaf strings, keeps None
    where the sample had null and keeps the shape of every container."""
    sorts = {"path": "list", "path[]": "str", "current_type": "class", "optional": "bool", "token": "str", "result": "any"}

    def requires(self, path, value, current_type, optional):
        return {"legal_input": conv_ok(path, value, current_type)}

    def raises(self, path, value, current_type, optional):
        return {"ValueError": False, "TypeError": False}

    def ensures(self, path, value, current_type, optional, result):
        return {"converted": conv_rel(path, value, current_type, result)}


# --------------------------------------------------------------------------------------------- labels (C03, C11)
@assumed("unidecode", props=["C03", "C11"])
class Unidecode:
    """unidecode(s): an ASCII transliteration (text otherwise opaque)"""
    sorts = {"a0": "str", "result": "str"}


@assumed("re.sub", props=["C03", "C11"])
class ReSubNonWord:
    r"""re.sub(r"\W", "", s): s without its non-word characters; what remains consists of word characters only"""
    sorts = {"a0": "str", "a1": "str", "a2": "str", "result": "str"}

    def ensures(self, a0, a1, a2, result):
        return {"only_word_chars_remain": implies(a0 == "\\W" and a1 == "", word_only(result) and len(result) <= len(a2))}


@assumed("inflection.underscore", props=["C03", "C11"])
class InflectionUnderscore:
    """inflection.underscore(s): snake-cases an identifier-like string: word characters stay word characters, the result is non-empty
    when the argument is, and it starts with a digit only if the argument does"""
    sorts = {"a0": "str", "result": "str"}

    def ensures(self, a0, result):
        return {"word_chars": implies(word_only(a0), word_only(result)), "non_empty": implies(len(a0) > 0, len(result) > 0),
                "digit_start_only_if_arg": implies(digit_start(result), digit_start(a0))}


@assumed("str.lower", props=[])
class StrLower:
    sorts = {"a0": "str", "result": "str"}

    def ensures(self, a0, result):
        return {"same_length": len(result) == len(a0),
                "digits_are_their_own_lowercase": implies(len(a0) == 1 and "0" <= a0 and a0 <= "9", result == a0)}


@contract("json_to_models/models/base.py::prepare_label", props=["C03", "C11"], no_merge=True)
class PrepareLabel:
    """C03/C11: a label is made of word characters only, is non-empty, does not start with an ASCII digit and is never a keyword,
    builtin or other blacklisted name - for field names and for class names alike."""
    sorts = {"s": "str", "convert_unicode": "bool", "to_snake_case": "bool", "result": "str", "blacklist_words": "set"}

    def requires(self, s, convert_unicode, to_snake_case):
        cleaned = ext("re.sub", "\\W", "", ext("unidecode", s) if convert_unicode else s)
        return {"something_left_after_cleaning": len(cleaned) > 0,
                "suffix_escapes_blacklist": forall(blacklist_words, lambda w: not (box_str(sval(w) + "_") in blacklist_words))}

    def ensures(self, s, convert_unicode, to_snake_case, result):
        return {
            "non_empty": len(result) > 0,
            "word_characters_only": word_only(result),
            "no_leading_ascii_digit": not digit_start(result),
            "never_blacklisted": not (box_str(result) in blacklist_words),
        }
