"""Contracts for json_to_models/utils.py: the per-object memo of @cached_method (used by convert_class_name / convert_field_name)."""
from pyvc.dsl import *

CM = "json_to_models/utils.py::cached_method.cached_fn"


@assumed("param:func", props=[])
class DecoratedFunctionCall:
    """func(self, *args): the decorated method; its result is a function of the method, the object and the arguments
    (the two decorated methods are pure string conversions); it may raise"""
    sorts = {"a2": "tuple", "result": "any"}
    deterministic = True

    def raises(self, a0, a1, a2):
        return {"*": True}


@spec
def memo_sound(cache, obj):
    """every stored value is what the method named in its key returns for the arguments in its key"""
    return is_none(cache) or forall(as_dict(cache), lambda key: as_dict(cache)[key] is ext("param:func", at(key, 0), obj, at(key, 1)))


@contract(CM, props=["C04", "C11", "C14"])
class CachedFn:
    """C04/C11 'the Python name is the sanitised key' and C14 'independent of earlier calls' rest on the memo being transparent:
    the wrapper returns exactly what the decorated method returns for *this* method and *these* arguments, whatever was cached before
    for other methods of the same object, and leaves the memo sound.  (A key that omits the method makes the lookup return another
    method's value: the post fails.)"""
    sorts = {"args": "tuple", "key": "tuple", "value": "any", "result": "any", "__cache__": "dict"}
    modifies = ["__cache__"]

    def requires(self, args):
        return {"memo_sound": memo_sound(attr_of(self, "__cache__"), self)}

    def raises(self, args):
        return {"*": True}

    def ensures(self, args, result):
        return {"transparent": result is ext("param:func", func, self, args),
                "memo_stays_sound": memo_sound(attr_of(self, "__cache__"), self)}


# The memo is sound for every object because nothing else ever assigns it: a missing attribute reads as None (empty memo), and the
# only writer keeps it sound (post memo_stays_sound).  Obligation only-written-in@__cache__ re-checks the premise on the package source.
written_only_in("__cache__", "json_to_models/utils.py::cached_method")
