"""Contracts for json_to_models/registry.py (C05)."""
from pyvc.dsl import *


@contract("json_to_models/registry.py::ModelFieldsEquals.cmp", props=["C05"])
class EqualsCmp:
    sorts = dict(fields_a="set", fields_b="set", result="bool")

    def ensures(self, fields_a, fields_b, result):
        return {"exact": result == set_eq(fields_a, fields_b)}


@contract("json_to_models/registry.py::ModelFieldsPercentMatch.cmp", props=["C05"])
class PercentCmp:
    sorts = dict(fields_a="set", fields_b="set", result="bool")

    def requires(self, fields_a, fields_b):
        return {"nonempty": card(fields_a | fields_b) > 0}

    def ensures(self, fields_a, fields_b, result):
        # "shared-key ratio": |a & b| / |a | b| >= threshold, stated without division
        return {"ratio": result == (card(fields_a & fields_b) >= self.percent_fields * card(fields_a | fields_b))}


@contract("json_to_models/registry.py::ModelFieldsNumberMatch.cmp", props=["C05"])
class NumberCmp:
    sorts = dict(fields_a="set", fields_b="set", result="bool")

    def ensures(self, fields_a, fields_b, result):
        return {"count": result == (card(fields_a & fields_b) >= self.number_fields)}
