"""Contracts for json_to_models/registry.py (C05)."""
from pyvc.dsl import *


@contract("json_to_models/registry.py::ModelFieldsEquals.cmp", props=["C05", "C07"])
class EqualsCmp:
    sorts = dict(fields_a="set", fields_b="set", result="bool")

    def ensures(self, fields_a, fields_b, result):
        return {"exact": result == set_eq(fields_a, fields_b)}


@contract("json_to_models/registry.py::ModelFieldsPercentMatch.cmp", props=["C05", "C07"])
class PercentCmp:
    sorts = dict(fields_a="set", fields_b="set", result="bool")

    def requires(self, fields_a, fields_b):
        return {"nonempty": card(fields_a | fields_b) > 0}

    def ensures(self, fields_a, fields_b, result):
        # "shared-key ratio": |a & b| / |a | b| >= threshold, stated without division
        return {"ratio": result == (card(fields_a & fields_b) >= self.percent_fields * card(fields_a | fields_b))}


@contract("json_to_models/registry.py::ModelFieldsNumberMatch.cmp", props=["C05", "C07"])
class NumberCmp:
    sorts = dict(fields_a="set", fields_b="set", result="bool")

    def ensures(self, fields_a, fields_b, result):
        return {"count": result == (card(fields_a & fields_b) >= self.number_fields)}


@contract("json_to_models/registry.py::ModelRegistry._models_cmp_fn", props=["C05", "C07"])
class ModelsCmpFn:
    """'two models are similar iff at least one configured comparator accepts their key sets' (C05, statement)"""
    sorts = dict(model_a="obj:ModelMeta", model_b="obj:ModelMeta", result="bool", _type="dict")

    def requires(self, model_a, model_b):
        return {
            "known_comparators": forall(self._models_cmp, lambda c: ty_is(c, (ModelFieldsEquals, ModelFieldsPercentMatch, ModelFieldsNumberMatch))),
            "some_key": card(set(model_a._type.keys()) | set(model_b._type.keys())) > 0,
        }

    def ensures(self, model_a, model_b, result):
        a = set(model_a._type.keys())
        b = set(model_b._type.keys())
        return {"any_comparator": result == exists(self._models_cmp, lambda c:
                (ty_is(c, ModelFieldsEquals) and set_eq(a, b))
                or (ty_is(c, ModelFieldsPercentMatch) and card(a & b) >= c.percent_fields * card(a | b))
                or (ty_is(c, ModelFieldsNumberMatch) and card(a & b) >= c.number_fields))}


MR = "json_to_models/registry.py::ModelRegistry"


@contract(MR + ".__init__", props=[], verify=False)
class RegistryInit:
    modifies = ["_models_cmp", "_registry", "_index"]

GRAPHMOD = ["_type", "_types", "_hash", "_sorted", "_registry", "pointers", "child_pointers", "_name", "_name_generated",
            "original_fields", "index", "parent", "parent_field_name", "ch", "i"]


@contract(MR + ".process_meta_data", props=["C01", "C05"], verify=False)
class ProcessMetaData:
    modifies = ["_type", "_types", "_hash", "_sorted", "_registry", "pointers", "child_pointers", "_name", "_name_generated",
                "original_fields", "index", "parent", "parent_field_name", "ch", "i"]

    def raises(self, meta, model_name, parent, parent_model, replace_kwargs):
        return {"*": True}


@contract(MR + ".merge_models", props=["C05"], verify=False)
class MergeModels:
    sorts = {"result": "list"}
    modifies = ["_type", "_types", "_hash", "_sorted", "_registry", "pointers", "child_pointers", "_name", "_name_generated",
                "original_fields", "index", "parent", "parent_field_name", "ch", "i"]

    def raises(self, generator, strict):
        return {"*": True}


@contract(MR + ".generate_names", props=["C03", "C11"], verify=False)
class GenerateNames:
    modifies = ["_name", "_name_generated"]

    def raises(self):
        return {"*": True}


@contract(MR + ".fix_name_duplicates", props=["C03", "C11", "C01", "C12"])
class FixNameDuplicates:
    """C03/C11 (class names unique): walking the models in registration order, a model whose name was already used by an earlier
    model is renamed to <name>_<index> and marked generated; every other model keeps its name."""
    sorts = {"_registry": "dict", "counter": "dict", "model": "obj:ModelMeta", "_name": "any", "index": "str", "_name_generated": "any"}
    modifies = ["_name", "_name_generated"]

    def requires(self):
        ms = dict_values(self._registry)
        return {"distinct_model_objects": forall(range(seq_len(ms)), lambda i: forall(range(seq_len(ms)), lambda j: implies(i != j, not (at(ms, i) is at(ms, j))))),
                "names_are_str_or_none": forall(range(seq_len(ms)), lambda i: is_none(attr_of(at(ms, i), "_name")) or ty_is(attr_of(at(ms, i), "_name"), str)),
                "indexes_are_str": forall(range(seq_len(ms)), lambda i: ty_is(attr_of(at(ms, i), "index"), str) and len(sval(attr_of(at(ms, i), "index"))) > 0),
                "no_name_is_an_index": forall(range(seq_len(ms)), lambda i: forall(range(seq_len(ms)), lambda j: not (attr_of(at(ms, i), "_name") == attr_of(at(ms, j), "index"))))}

    def ensures(self):
        ms = dict_values(self._registry)
        return {
            "repeated_names_get_index_suffix": forall(range(seq_len(ms)), lambda j: implies(
                truthy(old(attr_of(at(ms, j), "_name"))) and exists(range(j), lambda i: old(attr_of(at(ms, i), "_name")) == old(attr_of(at(ms, j), "_name"))),
                sval(attr_of(at(ms, j), "_name")) == sval(old(attr_of(at(ms, j), "_name"))) + "_" + sval(attr_of(at(ms, j), "index"))
                and attr_of(at(ms, j), "_name_generated") is box_bool(True))),
            "first_uses_keep_their_name": forall(range(seq_len(ms)), lambda j: implies(
                not truthy(old(attr_of(at(ms, j), "_name"))) or not exists(range(j), lambda i: old(attr_of(at(ms, i), "_name")) == old(attr_of(at(ms, j), "_name"))),
                attr_of(at(ms, j), "_name") is old(attr_of(at(ms, j), "_name")))),
        }


@loop(MR + ".fix_name_duplicates", 1)
def fix_name_duplicates_loop(self, counter, _it, _seq):
    return {
        "counted": forall(range(_it), lambda i: implies(truthy(old(attr_of(_seq[i], "_name"))),
                                                        old(attr_of(_seq[i], "_name")) in counter and ival(counter[old(attr_of(_seq[i], "_name"))]) >= 1)),
        "only_seen_names_counted": forall(counter, lambda k: ival(counter[k]) >= 1 and (exists(range(_it), lambda i: truthy(old(attr_of(_seq[i], "_name"))) and old(attr_of(_seq[i], "_name")) is k)
                                                                                      or exists(range(_it), lambda i: not truthy(old(attr_of(_seq[i], "_name"))) and attr_of(_seq[i], "index") is k))),
        "later_models_untouched": forall(range(_it, seq_len(_seq)), lambda j: attr_of(_seq[j], "_name") is old(attr_of(_seq[j], "_name"))),
        "renamed_so_far": forall(range(_it), lambda j: implies(
            truthy(old(attr_of(_seq[j], "_name"))) and exists(range(j), lambda i: old(attr_of(_seq[i], "_name")) == old(attr_of(_seq[j], "_name"))),
            sval(attr_of(_seq[j], "_name")) == sval(old(attr_of(_seq[j], "_name"))) + "_" + sval(attr_of(_seq[j], "index"))
            and attr_of(_seq[j], "_name_generated") is box_bool(True))),
        "kept_so_far": forall(range(_it), lambda j: implies(
            not truthy(old(attr_of(_seq[j], "_name"))) or not exists(range(j), lambda i: old(attr_of(_seq[i], "_name")) == old(attr_of(_seq[j], "_name"))),
            attr_of(_seq[j], "_name") is old(attr_of(_seq[j], "_name")))),
    }
