"""Contracts for json_to_models/registry.py (C05)."""
from pyvc.dsl import *


@contract("json_to_models/registry.py::ModelFieldsEquals.cmp", props=["C05"])
class EqualsCmp:
    sorts = dict(fields_a="set", fields_b="set", result="bool")

    def ensures(self, fields_a, fields_b, result):
        return {"exact": result == set_eq(fields_a, fields_b)}


@contract("json_to_models/registry.py::ModelFieldsPercentMatch.cmp", props=["C05"])
class PercentCmp:
    sorts = dict(fields_a="set", fields_b="set", result="bool")

    def requires(self, fields_a, fields_b):
        return {"nonempty": card(fields_a | fields_b) > 0}

    def ensures(self, fields_a, fields_b, result):
        # "shared-key ratio": |a & b| / |a | b| >= threshold, stated without division
        return {"ratio": result == (card(fields_a & fields_b) >= self.percent_fields * card(fields_a | fields_b))}


@contract("json_to_models/registry.py::ModelFieldsNumberMatch.cmp", props=["C05"])
class NumberCmp:
    sorts = dict(fields_a="set", fields_b="set", result="bool")

    def ensures(self, fields_a, fields_b, result):
        return {"count": result == (card(fields_a & fields_b) >= self.number_fields)}


@contract("json_to_models/registry.py::ModelRegistry._models_cmp_fn", props=["C05"])
class ModelsCmpFn:
    """'two models are similar iff at least one configured comparator accepts their key sets' (C05, statement)"""
    sorts = dict(model_a="obj:ModelMeta", model_b="obj:ModelMeta", result="bool", _type="dict")

    def requires(self, model_a, model_b):
        return {
            "known_comparators": forall(self._models_cmp, lambda c: ty_is(c, (ModelFieldsEquals, ModelFieldsPercentMatch, ModelFieldsNumberMatch))),
            "some_key": card(set(model_a._type.keys()) | set(model_b._type.keys())) > 0,
        }

    def ensures(self, model_a, model_b, result):
        a = set(model_a._type.keys())
        b = set(model_b._type.keys())
        return {"any_comparator": result == exists(self._models_cmp, lambda c:
                (ty_is(c, ModelFieldsEquals) and set_eq(a, b))
                or (ty_is(c, ModelFieldsPercentMatch) and card(a & b) >= c.percent_fields * card(a | b))
                or (ty_is(c, ModelFieldsNumberMatch) and card(a & b) >= c.number_fields))}


MR = "json_to_models/registry.py::ModelRegistry"


@contract(MR + ".__init__", props=[], verify=False)
class RegistryInit:
    modifies = ["_models_cmp", "_registry", "_index"]

GRAPHMOD = ["_type", "_types", "_hash", "_sorted", "_registry", "pointers", "child_pointers", "_name", "_name_generated",
            "original_fields", "index", "parent", "parent_field_name", "ch", "i"]


@contract(MR + ".process_meta_data", props=["C01", "C05"], verify=False)
class ProcessMetaData:
    modifies = ["_type", "_types", "_hash", "_sorted", "_registry", "pointers", "child_pointers", "_name", "_name_generated",
                "original_fields", "index", "parent", "parent_field_name", "ch", "i"]

    def raises(self, meta, model_name, parent, parent_model, replace_kwargs):
        return {"*": True}


@contract(MR + ".merge_models", props=["C05"], verify=False)
class MergeModels:
    sorts = {"result": "list"}
    modifies = ["_type", "_types", "_hash", "_sorted", "_registry", "pointers", "child_pointers", "_name", "_name_generated",
                "original_fields", "index", "parent", "parent_field_name", "ch", "i"]

    def raises(self, generator, strict):
        return {"*": True}


@contract(MR + ".generate_names", props=["C03", "C11"], verify=False)
class GenerateNames:
    modifies = ["_name", "_name_generated"]

    def raises(self):
        return {"*": True}
