"""Contracts for json_to_models/dynamic_typing/* (C10, C04, C08, C09 ...)."""
from pyvc.dsl import *


@contract("json_to_models/dynamic_typing/complex.py::StringLiteral.__init__", props=["C10"])
class StringLiteralInit:
    """C10: literal sets overflow when a string has 20+ characters or more than 15 are distinct.
    The constants 15 / 20 are taken from the property, not from the code."""
    sorts = {"literals": "set", "literals[]": "str", "_literals[]": "str"}
    modifies = ["_overflow", "_literals"]

    def ensures(self, literals):
        return {
            "overflow_rule": self._overflow == (card(literals) > 15 or exists(literals, lambda s: len(s) >= 20)),
            "kept": implies(not self._overflow, set_eq(self._literals, literals)),
            "dropped": implies(self._overflow, card(self._literals) == 0),
        }


@contract("json_to_models/dynamic_typing/base.py::BaseType.get_options_for_type", props=["C10", "C04"])
class GetOptionsForType:
    """first class of mro(type of t) that has an entry in types_style, else {}"""
    sorts = {"types_style": "dict", "result": "any", "mro": "tuple"}

    def requires(self, cls, t, types_style):
        return {"style_wf": forall(types_style, lambda k: ty_is(types_style[k], dict))}

    def ensures(self, cls, t, types_style, result):
        m = mro_of(t)
        return {
            "first_in_mro": exists(range(len(m)), lambda j: forall(range(j), lambda k: m[k] not in types_style)
                                   and m[j] in types_style and result is types_style[m[j]])
            or (forall(range(len(m)), lambda k: m[k] not in types_style) and ty_is(result, dict) and dict_len(result) == 0),
        }


@loop("json_to_models/dynamic_typing/base.py::BaseType.get_options_for_type", 1)
def get_options_loop(mro, types_style, _it, _seq):
    return {"none_before": forall(range(_it), lambda k: _seq[k] not in types_style)}


@contract("json_to_models/dynamic_typing/complex.py::StringLiteral.to_typing_code", props=["C10"])
class StringLiteralTypingCode:
    """C10: Literal[...] iff literals are enabled for this style and their number is below the configured maximum;
    the parts are the JSON renderings of the sorted members; otherwise plain 'str' with no import."""
    sorts = {"types_style": "dict", "result": "tuple", "_literals": "set", "_literals[]": "str", "options": "dict", "result[]": "any"}

    def requires(self, types_style):
        return {"style_wf": forall(types_style, lambda k: ty_is(types_style[k], dict))}

    def ensures(self, types_style, result):
        opts = self.get_options_for_type(self, types_style)
        use = truthy(dict_get(opts, "use_literals"))
        limit = dict_get(opts, "max_literals")
        as_literal = use and (limit is None or card(self._literals) < ival(limit))
        return {
            "literal_iff_enabled_and_below_max": (sval(result[1]) != "str") == as_literal,
            "literal_text": implies(as_literal, sval(result[1]) == "Literal[" + ", ".join(json.dumps(s, ensure_ascii=False) for s in sorted(self._literals)) + "]"),
            "literal_import": implies(as_literal, seq_len(result[0]) == 1 and sval(at(at(result[0], 0), 1)) == "Literal"),
            "str_no_import": implies(not as_literal, sval(result[1]) == "str" and seq_len(result[0]) == 0),
        }


@assumed("json.dumps", props=["C10"])
class JsonDumps:
    """json.dumps(s) of a str is a double-quoted literal that Python reads back as s.
    ASSUMED; audited by the bounded stand-in (known to fail outside the BMP with ensure_ascii=True)."""
    sorts = {"a0": "str", "result": "str"}

    def ensures(self, a0, result):
        return {"readback": pyeval_str(result) == a0, "quoted": len(result) >= 2}


@contract("json_to_models/dynamic_typing/base.py::BaseType.iter_child", props=[], verify=False)
class IterChild:
    """all nodes of the type tree below (and including) self - recursive generator, bounded-checked only"""
    sorts = {"result": "list"}


CTX = "json_to_models/dynamic_typing/models_meta.py::AbsoluteModelRef.Context"


@contract(CTX + ".__enter__", props=["C14", "C15"])
class ContextEnter:
    """C15: works in any thread (the thread-local slot may never have been assigned in this thread);
    C14: remembers what was observable before and installs the new mapping."""
    modifies = ["_old", "context", "$def:context"]

    def ensures(self):
        return {
            "remembers_previous": self._old is old(tl_get(self.data, "context")),
            "installs": tl_get(self.data, "context") is old(self.context),
            "own_mapping_kept": self.context is old(self.context),
        }


@contract(CTX + ".__exit__", props=["C14", "C15"])
class ContextExit:
    """C14: the previous reference context is restored on every exit (normal or exceptional)."""
    modifies = ["context", "$def:context"]

    def ensures(self, exc_type, exc_val, exc_tb):
        return {"restores": tl_get(self.data, "context") is old(self._old)}
