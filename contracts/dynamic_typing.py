"""Contracts for json_to_models/dynamic_typing/* (C10, C04, C08, C09 ...)."""
from pyvc.dsl import *


@contract("json_to_models/dynamic_typing/complex.py::StringLiteral.__init__", props=["C10", "C02"])
class StringLiteralInit:
    """C10: literal sets overflow when a string has 20+ characters or more than 15 are distinct.
    The constants 15 / 20 are taken from the property, not from the code."""
    sorts = {"literals": "set", "literals[]": "str", "_literals[]": "str"}
    modifies = ["_overflow", "_literals"]
    modifies_self = ["_overflow", "_literals"]

    def ensures(self, literals):
        return {
            "overflow_rule": self._overflow == (card(literals) > 15 or exists(literals, lambda s: len(s) >= 20)),
            "kept": implies(not self._overflow, set_eq(self._literals, literals)),
            "dropped": implies(self._overflow, card(self._literals) == 0),
        }


@contract("json_to_models/dynamic_typing/complex.py::StringLiteral.__eq__", props=["C07", "C01", "C02"])
class StringLiteralEq:
    """C07 / C01: two literal types are equal exactly when they are the same kind of node with the SAME set of strings (merge_field_sets
    skips a field whose type 'is equal' to the collected one: anything weaker than set equality - a subset test, say - loses observed
    strings and makes the result depend on sample order)."""
    sorts = {"_literals": "set", "_literals[]": "str", "result": "bool"}

    def requires(self, other):
        return {"other_literals_is_a_set": implies(ty_is(other, StringLiteral), ty_is(attr_of(other, "_literals"), set) or ty_is(attr_of(other, "_literals"), frozenset))}

    def ensures(self, other, result):
        return {
            "equal_only_to_literal_nodes": implies(result, ty_is(other, StringLiteral)),
            "equal_iff_same_strings": implies(ty_is(other, StringLiteral) and ty_is(self, StringLiteral), result == set_eq(self._literals, attr_set(other, "_literals"))),
        }


@contract("json_to_models/dynamic_typing/base.py::BaseType.get_options_for_type", props=["C10", "C04"])
class GetOptionsForType:
    """first class of mro(type of t) that has an entry in types_style, else {}"""
    sorts = {"types_style": "dict", "result": "any", "mro": "tuple"}

    def requires(self, cls, t, types_style):
        return {"style_wf": forall(types_style, lambda k: ty_is(types_style[k], dict))}

    def ensures(self, cls, t, types_style, result):
        m = mro_of(t)
        return {
            "first_in_mro": exists(range(len(m)), lambda j: forall(range(j), lambda k: m[k] not in types_style)
                                   and m[j] in types_style and result is types_style[m[j]])
            or (forall(range(len(m)), lambda k: m[k] not in types_style) and ty_is(result, dict) and dict_len(result) == 0),
        }


@loop("json_to_models/dynamic_typing/base.py::BaseType.get_options_for_type", 1)
def get_options_loop(mro, types_style, _it, _seq):
    return {"none_before": forall(range(_it), lambda k: _seq[k] not in types_style)}


@contract("json_to_models/dynamic_typing/complex.py::StringLiteral.to_typing_code", props=["C10"])
class StringLiteralTypingCode:
    """C10: Literal[...] iff literals are enabled for this style and their number is below the configured maximum;
    the parts are the JSON renderings of the sorted members; otherwise plain 'str' with no import."""
    sorts = {"types_style": "dict", "result": "tuple", "_literals": "set", "_literals[]": "str", "options": "dict", "result[]": "any"}

    def requires(self, types_style):
        return {"style_wf": forall(types_style, lambda k: ty_is(types_style[k], dict))}

    def ensures(self, types_style, result):
        opts = self.get_options_for_type(self, types_style)
        use = truthy(dict_get(opts, "use_literals"))
        limit = dict_get(opts, "max_literals")
        as_literal = use and (limit is None or card(self._literals) < ival(limit))
        return {
            "literal_iff_enabled_and_below_max": (sval(result[1]) != "str") == as_literal,
            "literal_text": implies(as_literal, sval(result[1]) == "Literal[" + ", ".join(json.dumps(s, ensure_ascii=False) for s in sorted(self._literals)) + "]"),
            "literal_import": implies(as_literal, seq_len(result[0]) == 1 and sval(at(at(result[0], 0), 1)) == "Literal"),
            "str_no_import": implies(not as_literal, sval(result[1]) == "str" and seq_len(result[0]) == 0),
        }


@assumed("json.dumps", props=["C10"])
class JsonDumps:
    """json.dumps(s) of a str is a double-quoted literal that Python reads back as s.
    ASSUMED; audited by the bounded stand-in (known to fail outside the BMP with ensure_ascii=True)."""
    sorts = {"a0": "str", "result": "str"}

    def ensures(self, a0, result):
        return {"readback": pyeval_str(result) == a0, "quoted": len(result) >= 2}


@contract("json_to_models/dynamic_typing/base.py::BaseType.iter_child", props=[], verify=False)
class IterChild:
    """all nodes of the type tree below (and including) self - recursive generator, bounded-checked only"""
    sorts = {"result": "list"}


CTX = "json_to_models/dynamic_typing/models_meta.py::AbsoluteModelRef.Context"


@contract(CTX + ".__enter__", props=["C14", "C15"])
class ContextEnter:
    """C15: works in any thread (the thread-local slot may never have been assigned in this thread);
    C14: remembers what was observable before and installs the new mapping."""
    modifies = ["_old", "context", "$def:context"]

    def ensures(self):
        return {
            "remembers_previous": self._old is old(tl_get(self.data, "context")),
            "installs": tl_get(self.data, "context") is old(self.context),
            "own_mapping_kept": self.context is old(self.context),
        }


@contract(CTX + ".__exit__", props=["C14", "C15"])
class ContextExit:
    """C14: the previous reference context is restored on every exit (normal or exceptional)."""
    modifies = ["context", "$def:context"]

    def ensures(self, exc_type, exc_val, exc_tb):
        return {"restores": tl_get(self.data, "context") is old(self._old)}


REG = "json_to_models/dynamic_typing/string_serializable.py::StringSerializableRegistry"


@spec
def registry_wf(r):
    """data invariant of a StringSerializableRegistry: replace entries are pairs, every type is a class registered once"""
    return forall(as_set(attr_of(r, "replaces")), lambda p: p is tuple2(at(p, 0), at(p, 1))) \
        and distinct(as_list(attr_of(r, "types"))) and forall(as_list(attr_of(r, "types")), lambda t: is_class(t))


@contract(REG + ".add", props=["C09", "C01"])
class RegistryAdd:
    """C09: registration appends the class (registration order is detection order) and adds exactly the pairs
    (t, cls) for the given replace_types; a replace pair is only admissible when cls accepts every string t accepts."""
    sorts = {"replace_types": "any", "cls": "any", "types": "list", "replaces": "set"}
    modifies = ["types", "replaces"]

    def requires(self, replace_types, cls):
        return {"sound_replacements": forall(as_list(replace_types), lambda t: sub_accepts(t, cls))}

    def ensures(self, replace_types, cls):
        given = not is_none(cls) and truthy(cls)
        return {
            "appended_last": implies(given, seq_len(self.types) == seq_len(old(self.types)) + 1 and at(self.types, seq_len(old(self.types))) is cls
                                     and forall(range(seq_len(old(self.types))), lambda j: at(self.types, j) is at(old(self.types), j))),
            "pairs_added": implies(given, forall(as_list(replace_types), lambda t: tuple2(t, cls) in self.replaces)),
            "only_those_pairs": implies(given, forall(self.replaces, lambda p: p in old(self.replaces) or (at(p, 1) is cls and at(p, 0) in as_list(replace_types)))),
            "old_pairs_kept": forall(old(self.replaces), lambda p: p in self.replaces),
            "decorator_form_changes_nothing_yet": implies(not given, unchanged("types") and unchanged("replaces")),
        }


@loop(REG + ".add", 1)
def registry_add_loop(self, cls, replace_types, pre_self, _it, _seq):
    return {
        "added_so_far": forall(range(_it), lambda j: tuple2(_seq[j], cls) in self.replaces),
        "only_those": forall(self.replaces, lambda p: p in old(self.replaces) or (at(p, 1) is cls and exists(range(_it), lambda j: _seq[j] is at(p, 0)))),
        "old_kept": forall(old(self.replaces), lambda p: p in self.replaces),
        "types_done": seq_len(self.types) == seq_len(old(self.types)) + 1 and at(self.types, seq_len(old(self.types))) is cls
        and forall(range(seq_len(old(self.types))), lambda j: at(self.types, j) is at(old(self.types), j)),
    }


@contract("json_to_models/dynamic_typing/string_datetime.py::register_datetime_classes", props=["C09", "C01"])
class RegisterDatetime:
    """C09/C01: enabling datetime detection registers the three ISO pseudo-types after the existing ones and adds NO replace pair
    (no date/time pseudo-type may swallow another: their strings and rendered types differ)."""
    sorts = {"registry": "obj:StringSerializableRegistry", "types": "list", "replaces": "set"}
    modifies = ["types", "replaces"]

    def ensures(self, registry):
        n = seq_len(old(registry.types))
        return {
            "three_appended": seq_len(registry.types) == n + 3 and at(registry.types, n) is IsoDateString and at(registry.types, n + 1) is IsoTimeString
            and at(registry.types, n + 2) is IsoDatetimeString,
            "earlier_kept": forall(range(n), lambda j: at(registry.types, j) is at(old(registry.types), j)),
            "no_new_replace_pairs": forall(registry.replaces, lambda p: p in old(registry.replaces)),
            "old_pairs_kept": forall(old(registry.replaces), lambda p: p in registry.replaces),
        }


# --------------------------------------------------------------------------------------------- IR node mutation (C08: hash-based de-duplication)
@contract("json_to_models/dynamic_typing/complex.py::SingleType.type.setter", props=["C08", "C07"])
class SingleTypeSetter:
    """C08: unions are de-duplicated by hash string, so a node whose child changes must forget its cached hash string"""
    modifies = ["_type", "_hash"]
    modifies_self = ["_type", "_hash"]

    def ensures(self, t):
        return {"child_replaced": self._type is t, "cached_hash_dropped": is_none(self._hash)}


@contract("json_to_models/dynamic_typing/complex.py::ComplexType.types.setter", props=["C08", "C07"])
class ComplexTypeSetter:
    modifies = ["_types", "_hash", "_sorted"]

    def ensures(self, value):
        return {"children_replaced": self._types is value, "cached_hash_dropped": is_none(self._hash), "cached_order_dropped": is_none(self._sorted)}


@contract("json_to_models/dynamic_typing/complex.py::SingleType.replace", props=["C08"])
class SingleTypeReplace:
    sorts = {"result": "any"}
    modifies = ["_type", "_hash"]
    modifies_self = ["_type", "_hash"]

    def ensures(self, t, kwargs, result):
        return {"in_place": result is self and self._type is t and is_none(self._hash)}


# --------------------------------------------------------------------------------------------- pointer bookkeeping (C05)
MM = "json_to_models/dynamic_typing/models_meta.py::ModelMeta"
MP = "json_to_models/dynamic_typing/models_meta.py::ModelPtr"


@contract(MP + ".replace", props=["C05"])
class ModelPtrReplace:
    """C05 'every reference points to a registered model': retargeting moves the pointer from the old model's pointer set to the new one's"""
    sorts = {"t": "obj:ModelMeta", "pointers": "set", "result": "any"}
    modifies = ["_type", "_hash", "pointers"]
    modifies_self = ["_type", "_hash"]

    def requires(self, t, kwargs):
        return {"registered_at_target": self in attr_set(self._type, "pointers"), "model_target": ty_is(self._type, ModelMeta)}

    def ensures(self, t, kwargs, result):
        return {
            "retargeted": self._type is t and result is self,
            # the hash string of a pointer names its target: a cached one must not survive retargeting (union de-duplication reads it)
            "cached_hash_dropped@C08,C07": is_none(self._hash),
            "in_new_set": self in attr_set(t, "pointers"),
            "out_of_old_set": implies(not (old(self._type) is t), not (self in attr_set(old(self._type), "pointers"))),
            "other_members_kept": forall(old(attr_set(t, "pointers")), lambda p: p in attr_set(t, "pointers")),
            "others_stay_in_old_set": forall(old(attr_set(self._type, "pointers")), lambda p: p is self or p in attr_set(old(self._type), "pointers")),
            "only_two_pointer_sets_change": unchanged_except("pointers", old(self._type), t),
        }


@contract(MP + ".replace_parent", props=["C05"])
class ModelPtrReplaceParent:
    sorts = {"t": "obj:ModelMeta", "child_pointers": "set", "result": "any", "parent": "obj:ModelMeta"}
    modifies = ["parent", "_hash", "child_pointers"]
    modifies_self = ["parent", "_hash"]

    def requires(self, t, kwargs):
        return {"registered_at_parent": self in attr_set(self.parent, "child_pointers")}

    def ensures(self, t, kwargs, result):
        return {
            "reparented": self.parent is t and result is self,
            "cached_hash_dropped@C08,C07": is_none(self._hash),
            "in_new_set": self in attr_set(t, "child_pointers"),
            "out_of_old_set": implies(not (old(self.parent) is t), not (self in attr_set(old(self.parent), "child_pointers"))),
            "other_members_kept": forall(old(attr_set(t, "child_pointers")), lambda p: p in attr_set(t, "child_pointers")),
            "others_stay_in_old_set": forall(old(attr_set(self.parent, "child_pointers")), lambda p: p is self or p in attr_set(old(self.parent), "child_pointers")),
            "only_two_child_sets_change": unchanged_except("child_pointers", old(self.parent), t),
        }


@assumed("permutations", props=[])
class Permutations2:
    """itertools.permutations(s, 2): exactly the ordered pairs of distinct members of s"""
    sorts = {"a0": "set", "a1": "int", "result": "list"}

    def ensures(self, a0, a1, result):
        return {
            "pairs": implies(a1 == 2, forall(result, lambda p: p is tuple2(at(p, 0), at(p, 1)) and at(p, 0) in a0 and at(p, 1) in a0 and not (at(p, 0) is at(p, 1)))),
            "all_pairs": implies(a1 == 2, forall(a0, lambda a: forall(a0, lambda b: implies(not (a is b), exists(range(seq_len(result)), lambda k: at(result, k) is tuple2(a, b)))))),
        }


@contract(REG + ".remove", props=["C09"])
class RegistryRemove:
    """C09 'disabled types never appear': after remove(c) the class is registered no more (one registration removed)
    and no replace pair mentions it; every other pair is kept."""
    sorts = {"types": "list", "replaces": "set"}
    modifies = ["types", "replaces"]

    def requires(self, cls):
        return {"registered": cls in self.types,
                "replaces_are_pairs": forall(self.replaces, lambda p: p is tuple2(at(p, 0), at(p, 1)))}

    def ensures(self, cls):
        return {
            "one_registration_removed": seq_len(self.types) == seq_len(old(self.types)) - 1 and forall(self.types, lambda t: t in old(self.types)),
            "others_still_registered": forall(old(self.types), lambda t: implies(not (t == cls), t in self.types)),
            "no_pair_mentions_cls": forall(self.replaces, lambda p: not (at(p, 0) is cls) and not (at(p, 1) is cls)),
            "other_pairs_kept": forall(old(self.replaces), lambda p: implies(not (at(p, 0) is cls) and not (at(p, 1) is cls), p in self.replaces)),
            "no_new_pairs": forall(self.replaces, lambda p: p in old(self.replaces)),
            "gone_if_registered_once": implies(distinct(old(self.types)), distinct(self.types) and not (cls in self.types)),
        }


@loop(REG + ".remove", 1)
def registry_remove_loop(self, cls, _it, _seq):
    return {
        "subset": forall(self.replaces, lambda p: p in old(self.replaces)),
        "seen_removed": forall(range(_it), lambda j: implies(at(_seq[j], 0) is cls or at(_seq[j], 1) is cls, not (_seq[j] in self.replaces))),
        "others_kept": forall(old(self.replaces), lambda p: implies(not (at(p, 0) is cls) and not (at(p, 1) is cls), p in self.replaces)),
        "unseen_kept": forall(range(_it, seq_len(_seq)), lambda j: _seq[j] in self.replaces),
        "types_done": seq_len(self.types) == seq_len(old(self.types)) - 1 and forall(self.types, lambda t: t in old(self.types))
        and forall(old(self.types), lambda t: implies(not (t == cls), t in self.types))
        and implies(distinct(old(self.types)), distinct(self.types) and not (cls in self.types)),
    }


@contract(REG + ".remove_by_name", props=["C09"])
class RegistryRemoveByName:
    """C09: disabling by name removes exactly the classes whose own name or whose actual type's name is that name
    (given that each class is registered once), and every replace pair mentioning them."""
    sorts = {"name": "str", "types": "list", "replaces": "set", "types[]": "class", "_seq[]": "class"}
    modifies = ["types", "replaces"]

    def requires(self, name):
        return {"replaces_are_pairs": forall(self.replaces, lambda p: p is tuple2(at(p, 0), at(p, 1))),
                "registered_once": distinct(self.types),
                "all_classes": forall(self.types, lambda t: is_class(t))}

    def ensures(self, name):
        return {
            "named_classes_gone": forall(self.types, lambda t: not (cls_name(t) == name or cls_name(clsattr(t, "actual_type")) == name)),
            "others_kept": forall(old(self.types), lambda t: implies(not (cls_name(t) == name or cls_name(clsattr(t, "actual_type")) == name), t in self.types)),
            "nothing_added": forall(self.types, lambda t: t in old(self.types)),
            "still_well_formed": registry_wf(self),
        }


@loop(REG + ".remove_by_name", 1)
def registry_remove_by_name_loop(self, name, _it, _seq):
    return {
        "pairs": forall(self.replaces, lambda p: p is tuple2(at(p, 0), at(p, 1))),
        "seen_named_gone": forall(range(_it), lambda j: implies(cls_name(_seq[j]) == name or cls_name(clsattr(_seq[j], "actual_type")) == name, not (_seq[j] in self.types))),
        "kept": forall(range(seq_len(_seq)), lambda j: implies(j >= _it or not (cls_name(_seq[j]) == name or cls_name(clsattr(_seq[j], "actual_type")) == name), _seq[j] in self.types)),
        "nothing_added": forall(self.types, lambda t: t in _seq),
        "still_classes": forall(self.types, lambda t: is_class(t)),
        "still_once": distinct(self.types) and distinct(_seq),
    }


@contract(REG + ".resolve", props=["C09", "C01"])
class RegistryResolve:
    """C09: resolve only drops a pseudo-type when another *given* type replaces it (so, with a replace relation that is
    sound - the replacing type accepts every string the replaced one accepts - nothing is lost); it returns a subset of
    what it was given; no survivor is replaceable by another survivor.  (The step from these three facts to 'every given
    type is covered by a survivor' is induction over the finite acyclic replace relation: Lean lemma L-RESOLVE.)"""
    sorts = {"types": "tuple", "result": "set", "replaces": "set", "replaced": "set", "flag": "bool"}

    def requires(self, types):
        return {"replaces_are_pairs": forall(self.replaces, lambda p: p is tuple2(at(p, 0), at(p, 1)))}

    def ensures(self, types, result):
        return {
            "subset_of_given": forall(result, lambda r: r in as_set_of(types)),
            "no_survivor_replaceable": forall(result, lambda a: forall(result, lambda b: implies(not (a is b), not (tuple2(a, b) in self.replaces)))),
            "dropped_only_if_replaced": forall(as_set_of(types), lambda t: implies(not (t in result), exists(as_set_of(types), lambda u: not (u is t) and tuple2(t, u) in self.replaces)),
                                               lambda t: t in result),
        }


@loop(REG + ".resolve", 1)
def resolve_outer(self, types, pre_types, flag):
    given = as_set_of(pre_types)
    return {
        "subset": forall(types, lambda r: r in given),
        "dropped_replaced": forall(given, lambda t: implies(not (t in types), exists(given, lambda u: not (u is t) and tuple2(t, u) in self.replaces)),
                                   lambda t: t in types),
        "stable_when_done": implies(not flag, forall(types, lambda a: forall(types, lambda b: implies(not (a is b), not (tuple2(a, b) in self.replaces))))),
    }


@loop(REG + ".resolve", 2)
def resolve_inner(self, types, replaced, flag, _it, _seq):
    return {
        "replaced_have_replacement": forall(replaced, lambda x: x in types and exists(types, lambda u: not (u is x) and tuple2(x, u) in self.replaces)),
        "flag_iff_found": flag == exists(range(_it), lambda j: _seq[j] in self.replaces),
        "found_are_marked": forall(range(_it), lambda j: implies(_seq[j] in self.replaces, at(_seq[j], 0) in replaced)),
    }


@contract("json_to_models/dynamic_typing/base.py::get_hash_string", props=["C08"], verify=False, deterministic=True)
class GetHashString:
    """A-HASH (assumed): the hash string is a deterministic function of the type's structure; equal hash strings mean equal types
    (audited by the bounded normal-form stand-ins; known to be weak for literal sets whose comma-joins coincide)"""
    sorts = {"result": "str"}
    modifies = ["_hash"]

    def ensures(self, t, result):
        return {"only_str_hashes_like_str": implies(result == get_hash_string(str), t is str)}


@contract("json_to_models/dynamic_typing/complex.py::DUnion._extract_nested_types", props=["C08"], verify=False, deterministic=True)
class ExtractNested:
    """flattened members of a union (recursive generator: bounded only)"""
    sorts = {"result": "list"}

    def ensures(self, result):
        return {"flat": forall(result, lambda m: not isinstance(m, DUnion)), "is_list": ty_is(result, list)}


@spec
def lit_source(types, n, x):
    """string x occurs in a non-overflowed literal among the first n (flattened) arguments"""
    return exists(range(n), lambda i: (isinstance(at(types, i), StringLiteral) and not attr_bool(at(types, i), "_overflow") and x in attr_set(at(types, i), "_literals"))
                  or (isinstance(at(types, i), DUnion) and exists(range(seq_len(DUnion._extract_nested_types(at(types, i)))), lambda j:
                      isinstance(at(DUnion._extract_nested_types(at(types, i)), j), StringLiteral) and not attr_bool(at(DUnion._extract_nested_types(at(types, i)), j), "_overflow")
                      and x in attr_set(at(DUnion._extract_nested_types(at(types, i)), j), "_literals"))))


@spec
def flat_upto(types, n, x):
    """x is one of the flattened arguments among the first n arguments"""
    return exists(range(n), lambda i: (not isinstance(at(types, i), DUnion) and x is at(types, i))
                  or (isinstance(at(types, i), DUnion) and exists(range(seq_len(DUnion._extract_nested_types(at(types, i)))),
                                                                  lambda j: at(DUnion._extract_nested_types(at(types, i)), j) is x)))


@contract("json_to_models/dynamic_typing/complex.py::DUnion.__init__", props=["C08", "C10", "C01", "C02", "C07"])
class DUnionInit:
    """C08: a union is built flat (no member is a union) and without duplicates (members have pairwise different hash strings);
    C01: de-duplication only drops an argument whose hash string equals a kept member's; C02: every member is one of the (flattened)
    arguments, or `str`, or the one merged string literal."""
    sorts = {"types": "tuple", "unique_types": "list", "hashes": "set", "hashes[]": "str", "str_literals": "set", "use_literals": "any",
             "_types": "list", "t": "any", "t2": "any"}
    modifies = ["_types", "_sorted", "_hash", "_overflow", "_literals"]
    modifies_self = ["_types", "_sorted"]

    def ensures(self, types):
        ms = self._types
        return {
            "flat@C08": forall(range(seq_len(ms)), lambda k: not isinstance(at(ms, k), DUnion)),
            "members_from_arguments@C02": forall(range(seq_len(ms)), lambda k: at(ms, k) is str or isinstance(at(ms, k), StringLiteral) or flat_upto(types, seq_len(types), at(ms, k))),
            "no_duplicate_hashes@C08": forall(range(seq_len(ms)), lambda k: forall(range(k), lambda l: implies(
                not isinstance(at(ms, k), StringLiteral) and not isinstance(at(ms, l), StringLiteral), not (get_hash_string(at(ms, k)) == get_hash_string(at(ms, l)))))),
            "at_most_one_literal@C08": forall(range(seq_len(ms)), lambda k: forall(range(k), lambda l: not (isinstance(at(ms, k), StringLiteral) and isinstance(at(ms, l), StringLiteral)))),
            "non_empty_when_some_argument_counts@C08": implies(
                exists(range(seq_len(types)), lambda i: not isinstance(at(types, i), DUnion) and
                       (not isinstance(at(types, i), StringLiteral) or attr_bool(at(types, i), "_overflow") or card(attr_set(at(types, i), "_literals")) > 0)),
                seq_len(ms) >= 1),
            "dedup_only_by_hash@C01": forall(range(seq_len(types)), lambda i: implies(
                not isinstance(at(types, i), DUnion) and not isinstance(at(types, i), StringLiteral),
                exists(range(seq_len(ms)), lambda k: get_hash_string(at(ms, k)) == get_hash_string(at(types, i))))),
            "str_excludes_literal@C08": forall(range(seq_len(ms)), lambda k: forall(range(seq_len(ms)), lambda l: not (at(ms, k) is str and isinstance(at(ms, l), StringLiteral)))),
            "literal_member_not_overflowed@C10": forall(range(seq_len(ms)), lambda k: implies(isinstance(at(ms, k), StringLiteral), not attr_bool(at(ms, k), "_overflow"))),
            "literal_lists_only_observed_strings@C02,C10": forall(range(seq_len(ms)), lambda k: implies(
                isinstance(at(ms, k), StringLiteral),
                forall(attr_set(at(ms, k), "_literals"), lambda x: lit_source(types, seq_len(types), x)))),
            "literals_kept_when_nothing_generalised@C10,C07": implies(
                forall(range(seq_len(types)), lambda i: not isinstance(at(types, i), DUnion))
                and forall(range(seq_len(types)), lambda i: not (at(types, i) is str) and implies(isinstance(at(types, i), StringLiteral), not attr_bool(at(types, i), "_overflow")))
                and exists(range(seq_len(types)), lambda i: isinstance(at(types, i), StringLiteral) and card(attr_set(at(types, i), "_literals")) > 0),
                exists(range(seq_len(ms)), lambda k: (isinstance(at(ms, k), StringLiteral) and forall(range(seq_len(types)), lambda i: implies(
                    isinstance(at(types, i), StringLiteral), subset(attr_set(at(types, i), "_literals"), attr_set(at(ms, k), "_literals")))))
                    or at(ms, k) is str)),
        }


@loop("json_to_models/dynamic_typing/complex.py::DUnion.__init__", 1)
def dunion_outer(types, unique_types, hashes, str_literals, use_literals, _it, _seq):
    return {
        "members_ok": forall(range(seq_len(unique_types)), lambda k: not isinstance(at(unique_types, k), DUnion) and not isinstance(at(unique_types, k), StringLiteral)
                             and flat_upto(types, _it, at(unique_types, k))),
        "hashes_of_members": forall(range(seq_len(unique_types)), lambda k: get_hash_string(at(unique_types, k)) in hashes),
        "members_of_hashes": forall(hashes, lambda h: exists(range(seq_len(unique_types)), lambda k: get_hash_string(at(unique_types, k)) == sval(h))),
        "distinct_hashes": forall(range(seq_len(unique_types)), lambda k: forall(range(k), lambda l: not (get_hash_string(at(unique_types, k)) == get_hash_string(at(unique_types, l))))),
        "is_list": ty_is(unique_types, list),
        "kept_or_same_hash": forall(range(_it), lambda i: implies(not isinstance(_seq[i], DUnion) and not isinstance(_seq[i], StringLiteral), get_hash_string(_seq[i]) in hashes)),
        "literals_observed": forall(str_literals, lambda x: lit_source(types, _it, x)),
        "while_literals_enabled": implies(truthy(use_literals), forall(range(_it), lambda i: not (_seq[i] is str) and implies(
            isinstance(_seq[i], StringLiteral), not attr_bool(_seq[i], "_overflow") and subset(attr_set(_seq[i], "_literals"), str_literals)))),
        "disabled_only_by_generalisation": implies(not truthy(use_literals), exists(range(_it), lambda i: _seq[i] is str or isinstance(_seq[i], DUnion)
                                                                                   or (isinstance(_seq[i], StringLiteral) and attr_bool(_seq[i], "_overflow")))),
        "str_member_disables": implies(exists(range(seq_len(unique_types)), lambda k: at(unique_types, k) is str), not truthy(use_literals)),
    }


@loop("json_to_models/dynamic_typing/complex.py::DUnion.__init__", 2)
def dunion_inner(types, unique_types, hashes, str_literals, use_literals, pre_unique_types, pre_hashes, pre_str_literals, pre_use_literals, _it, _seq):
    return {
        "members_ok": forall(range(seq_len(unique_types)), lambda k: not isinstance(at(unique_types, k), DUnion) and not isinstance(at(unique_types, k), StringLiteral)
                             and (exists(range(seq_len(pre_unique_types)), lambda q: at(pre_unique_types, q) is at(unique_types, k))
                                  or exists(range(_it), lambda j: _seq[j] is at(unique_types, k)))),
        "hashes_of_members": forall(range(seq_len(unique_types)), lambda k: get_hash_string(at(unique_types, k)) in hashes),
        "members_of_hashes": forall(hashes, lambda h: exists(range(seq_len(unique_types)), lambda k: get_hash_string(at(unique_types, k)) == sval(h))),
        "distinct_hashes": forall(range(seq_len(unique_types)), lambda k: forall(range(k), lambda l: not (get_hash_string(at(unique_types, k)) == get_hash_string(at(unique_types, l))))),
        "is_list": ty_is(unique_types, list),
        "old_hashes_kept": forall(pre_hashes, lambda h: h in hashes),
        "literals_observed": forall(str_literals, lambda x: x in pre_str_literals or exists(range(_it), lambda j: isinstance(_seq[j], StringLiteral)
                                                                                          and not attr_bool(_seq[j], "_overflow") and x in attr_set(_seq[j], "_literals"))),
        "str_member_disables": implies(exists(range(seq_len(unique_types)), lambda k: at(unique_types, k) is str), not truthy(use_literals)),
        "enabled_only_if_was": implies(truthy(use_literals), truthy(pre_use_literals)),
        "literals_grow": subset(pre_str_literals, str_literals),
    }


@contract("json_to_models/dynamic_typing/complex.py::SingleType.__init__", props=[])
class SingleTypeInit:
    modifies = ["_type", "_hash"]
    modifies_self = ["_type", "_hash"]

    def ensures(self, t):
        return {"wraps": self._type is t, "hash_reset": is_none(self._hash)}


@assumed("clsmethod:to_internal_value", props=["C09"])
class ToInternalValue:
    """t.to_internal_value(s) raises ValueError exactly when pseudo-type t does not accept the string s
    (accepts is the spec relation of C09; audited against the six shipped parsers by the bounded grammar stand-in)"""
    sorts = {"a1": "str", "result": "any"}
    raises_exact = True

    def raises(self, a0, a1):
        return {"ValueError": not accepts(a0, a1)}


@assumed("method:match", props=["C13"])
class PatternMatch:
    """compiled_pattern.match(s): truthy iff the pattern matches at the start of s (re semantics are not modelled: matches is uninterpreted)"""
    sorts = {"a1": "str", "result": "any"}

    def ensures(self, a0, a1, result):
        return {"truthy_iff_matches": truthy(result) == matches(a0, a1)}


@contract("json_to_models/dynamic_typing/models_meta.py::AbsoluteModelRef.to_typing_code", props=["C15", "C14"], abstract=True)
class AbsoluteRefToTypingCode:
    """C15 'works from a thread other than the importing one': rendering a model reference reads the thread-local reference context
    only through a defaulting read - no exception is declared, so an unguarded read of an attribute this thread never assigned is an
    undischarged definedness obligation (def.AttributeError.threadlocal.context)."""
    sorts = {"result": "tuple", "context_data": "any", "model_path": "any", "model": "any", "imports": "any", "s": "any"}

    def ensures(self, types_style, result):
        return {"pair": seq_len(result) == 2}
